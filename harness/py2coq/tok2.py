"""Second, more tolerant translation of StreamTokenizer's automaton methods
(_reinitialize, _process_end_of_detection, _process, _post_process) with the
generic engine of pure.py: helper methods are inlined from their own source,
guard clauses / early returns / swapped branches are handled by the
continuation-passing translation, and TokTie2.v decides equality with the hand
model semantically (tactic `walk`).  Used when the structural translator tok.py
rejects a refactored source: if this tie holds, the code still computes the
model's functions and no alarm is due."""
import ast

from .pure import Pure, Spec, V, NONE, TRUE, FALSE, TranslationError, bad, zlit

STATE = [("_state", "(state s)", "astate"), ("_data", "(data s)", "bytes"), ("_contiguous_token", "(contig s)", "bool"),
         ("_init_count", "(init_count s)", "Z"), ("_silence_length", "(sil s)", "Z"), ("_start_frame", "(start s)", "Z"),
         ("_current_frame", "(cur s)", "Z")]
CONFIG = {"min_length": ("(min_length c)", "Z"), "max_length": ("(max_length c)", "Z"), "max_continuous_silence": ("(max_sil c)", "Z"),
          "init_min": ("(init_min c)", "Z"), "init_max_silent": ("(init_max_sil c)", "Z"),
          "_strict_min_length": ("(strict c)", "bool"), "_drop_trailing_silence": ("(drop c)", "bool")}
ASTATES = ("SILENCE", "POSSIBLE_SILENCE", "POSSIBLE_NOISE", "NOISE")


def st_text(env):
    return "(mkSt %s)" % " ".join(env["self." + a].text for a, _, _ in STATE)


def ret_tok(tr, v, env, node):
    if v.ty == "none":
        return "(%s, None)" % st_text(env)
    if v.ty == "tuple" and len(v.const) == 3 and [x.ty for x in v.const] == ["bytes", "Z", "Z"]:
        return "(%s, Some (%s, %s, %s))" % ((st_text(env),) + tuple(x.text for x in v.const))
    if v.ty == "opt_token":
        return "(%s, %s)" % (st_text(env), v.text)
    bad(node, "automaton method returns %s (a token tuple or None expected)" % v.ty)


def ret_state(tr, v, env, node):
    if v.ty != "none":
        bad(node, "_reinitialize returns a value")
    return st_text(env)


class TokPure(Pure):
    def __init__(self, fn, spec, module, cls):
        super().__init__(fn, spec, module=module, cls=cls)
        self.valid_calls = 0
        self.int_consts = {n.targets[0].id: n.value.value for n in cls.body
                           if isinstance(n, ast.Assign) and len(n.targets) == 1 and isinstance(n.targets[0], ast.Name)
                           and isinstance(n.value, ast.Constant) and isinstance(n.value.value, int) and not isinstance(n.value.value, bool)}
        self.ignored_writes = set(self.IGNORED_WRITES)
        self.reads = 0
        self.case_frame = None

    def expr(self, e, env, binds):
        # class constants: the four automaton states (must be distinct ints, checked by the caller)
        if isinstance(e, ast.Attribute) and isinstance(e.value, ast.Name) and e.value.id in ("self", "StreamTokenizer") and e.attr in ASTATES:
            return V(e.attr, "astate", e.attr, True)
        if isinstance(e, ast.Attribute) and isinstance(e.value, ast.Name) and e.value.id in ("self", "StreamTokenizer") and e.attr in self.int_consts \
                and ("self." + e.attr) not in env:
            return V(zlit(self.int_consts[e.attr]), "Z", self.int_consts[e.attr], True)
        if isinstance(e, ast.Call) and isinstance(e.func, ast.Name) and e.func.id in ("callable", "hasattr"):
            return TRUE
        if isinstance(e, ast.BinOp) and isinstance(e.op, (ast.BitOr, ast.BitAnd)):
            a = self.expr(e.left, env, binds); b = self.expr(e.right, env, binds)
            if a.ty != "Z" or b.ty != "Z":
                bad(e, "bit operation on non-integers")
            if a.has_const and b.has_const:
                r = (a.const | b.const) if isinstance(e.op, ast.BitOr) else (a.const & b.const)
                return V(zlit(r), "Z", r, True)
            return V("(Z.%s %s %s)" % ("lor" if isinstance(e.op, ast.BitOr) else "land", a.text, b.text), "Z")
        if isinstance(e, ast.Compare) and len(e.ops) == 1 and isinstance(e.ops[0], (ast.In, ast.NotIn)) \
                and (isinstance(e.comparators[0], (ast.Tuple, ast.List)) or (isinstance(e.comparators[0], ast.Name) and env.get(e.comparators[0].id, NONE).ty == "tuple")):
            a = self.expr(e.left, env, binds)
            if a.ty == "Z":
                parts = []
                elts = e.comparators[0].elts if not isinstance(e.comparators[0], ast.Name) else None
                vals = [self.expr(x, env, binds) for x in elts] if elts is not None else env[e.comparators[0].id].const
                for b in vals:
                    if b.ty != "Z":
                        bad(e, "membership among non-integers")
                    parts.append("(%s =? %s)" % (a.text, b.text))
                t = "(" + " || ".join(parts) + ")" if parts else "false"
                return V(t if isinstance(e.ops[0], ast.In) else "(negb %s)" % t, "bool")
        if isinstance(e, ast.List) and not e.elts:
            return V("[]", "bytes")
        if isinstance(e, ast.Compare) and len(e.ops) == 1 and isinstance(e.ops[0], (ast.Eq, ast.NotEq)):
            a = self.expr(e.left, env, binds)
            if a.ty == "astate":
                b = self.expr(e.comparators[0], env, binds)
                if b.ty != "astate":
                    bad(e, "automaton state compared with %s" % b.ty)
                if a.has_const and b.has_const:
                    r = (a.const == b.const) == isinstance(e.ops[0], ast.Eq)
                    return TRUE if r else FALSE
                t = "(astate_eqb %s %s)" % (a.text, b.text)
                return V(t if isinstance(e.ops[0], ast.Eq) else "(negb %s)" % t, "bool")
        if isinstance(e, ast.Compare) and len(e.ops) == 1 and isinstance(e.ops[0], ast.In) and isinstance(e.comparators[0], (ast.Tuple, ast.List)):
            a = self.expr(e.left, env, binds)
            if a.ty == "astate":
                parts = []
                for x in e.comparators[0].elts:
                    b = self.expr(x, env, binds)
                    if b.ty != "astate":
                        bad(e, "automaton state compared with %s" % b.ty)
                    parts.append("(astate_eqb %s %s)" % (a.text, b.text))
                return V("(" + " || ".join(parts) + ")" if parts else "false", "bool")
        if isinstance(e, ast.Call) and isinstance(e.func, ast.Attribute) and isinstance(e.func.value, ast.Name) and e.func.value.id == "self" \
                and e.func.attr == "_is_valid":
            if len(e.args) != 1 or not isinstance(e.args[0], ast.Name) or env.get(e.args[0].id, NONE).ty != "elem":
                bad(e, "the validator must be applied to the frame")
            self.valid_calls += 1
            return V("v", "bool")
        return super().expr(e, env, binds)

    IGNORED_WRITES = ("_deliver", "_tokens")     # written by _reinitialize, never read by the automaton methods

    def block(self, stmts, env, k):
        if stmts and isinstance(stmts[0], ast.Assign) and len(stmts[0].targets) == 1 and isinstance(stmts[0].targets[0], ast.Attribute) \
                and isinstance(stmts[0].targets[0].value, ast.Name) and stmts[0].targets[0].value.id == "self" \
                and stmts[0].targets[0].attr in self.ignored_writes:
            return self.block(stmts[1:], env, k)
        # ---- generator statements of _iter_tokens (one turn of the loop)
        if stmts and isinstance(stmts[0], ast.Assign) and isinstance(stmts[0].value, ast.Call) and isinstance(stmts[0].value.func, ast.Attribute) \
                and stmts[0].value.func.attr == "read" and isinstance(stmts[0].value.func.value, ast.Name) and stmts[0].value.func.value.id in env \
                and env[stmts[0].value.func.value.id].ty == "source":
            if self.reads or not isinstance(stmts[0].targets[0], ast.Name):
                bad(stmts[0], "the source must be read exactly once per turn of the loop")
            self.reads += 1
            env = dict(env); env[stmts[0].targets[0].id] = self.case_frame
            try:
                return self.block(stmts[1:], env, k)
            finally:
                self.reads -= 1
        if stmts and isinstance(stmts[0], ast.Expr) and isinstance(stmts[0].value, ast.Yield):
            binds = []
            v = self.expr(stmts[0].value.value, env, binds)
            if binds or v.ty != "tuple" or [x.ty for x in v.const] != ["bytes", "Z", "Z"]:
                bad(stmts[0], "only tokens (data, start, end) can be yielded")
            env = dict(env); env["#emitted"] = env["#emitted"] + ["(%s, %s, %s)" % tuple(x.text for x in v.const)]
            return self.block(stmts[1:], env, k)
        if stmts and isinstance(stmts[0], ast.Break):
            return env["#after_loop"](env)
        if stmts and isinstance(stmts[0], ast.While):
            w = stmts[0]
            if not (isinstance(w.test, ast.Constant) and w.test.value is True) or w.orelse:
                bad(w, "expected `while True:`")
            after = stmts[1:]
            env = dict(env)
            env["#after_loop"] = lambda e2: self.block(after, e2, lambda e3: self.spec.ret(self, V("false", "flag"), e3, w))
            return self.block(list(w.body), env, lambda e2: self.spec.ret(self, V("true", "flag"), e2, w))
        # self._data.append(frame)
        if stmts and isinstance(stmts[0], ast.Expr) and isinstance(stmts[0].value, ast.Call) and isinstance(stmts[0].value.func, ast.Attribute) \
                and stmts[0].value.func.attr == "append":
            call = stmts[0].value
            tgt = call.func.value
            if not (isinstance(tgt, ast.Attribute) and isinstance(tgt.value, ast.Name) and tgt.value.id == "self" and tgt.attr == "_data") \
                    or len(call.args) != 1 or not isinstance(call.args[0], ast.Name) or env.get(call.args[0].id, NONE).ty != "elem":
                bad(stmts[0], "only self._data.append(frame) is supported")
            env = dict(env)
            nm = self.new("data")
            cur = env["self._data"]
            env["self._data"] = V(nm, "bytes")
            return "(let %s := (%s ++ [%s]) in %s)" % (nm, cur.text, env[call.args[0].id].text, self.block(stmts[1:], env, k))
        return super().block(stmts, env, k)


def emit(core_py):
    src = open(core_py).read()
    tree = ast.parse(src)
    cls = [n for n in tree.body if isinstance(n, ast.ClassDef) and n.name == "StreamTokenizer"]
    if len(cls) != 1:
        raise TranslationError("class StreamTokenizer not found exactly once")
    cls = cls[0]
    consts = {}
    for n in cls.body:
        if isinstance(n, ast.Assign) and len(n.targets) == 1 and isinstance(n.targets[0], ast.Name) and isinstance(n.value, ast.Constant):
            consts[n.targets[0].id] = n.value.value
    vals = [consts.get(a) for a in ASTATES]
    if None in vals or len(set(vals)) != 4:
        raise TranslationError("automaton state constants missing or not distinct: %r" % vals)
    meths = {n.name: n for n in cls.body if isinstance(n, ast.FunctionDef)}
    out = ["(* generated from auditok/core.py (StreamTokenizer automaton methods, generic engine) - do not edit *)",
           "From Coq Require Import ZArith List Bool.", "From AV Require Import Base.PyList Tok.Model.", "Import ListNotations.", "Open Scope Z_scope.", "",
           "Definition nonempty {T} (l : list T) : bool := match l with [] => false | _ => true end.", "",
           "Section Gen.", "Context {B : Type}.", ""]

    def spec(name, params, ret, extra):
        sp = Spec(name, params, ret, self_attrs=dict(CONFIG), state=STATE)
        sp.extra_params = extra
        return sp
    for py, coq, params, ret, extra, rt in (
            ("_reinitialize", "reinit2", [], ret_state, ["(s : st B)"], "st B"),
            ("_process_end_of_detection", "eod2", [("truncated", "bool")], ret_tok, ["(c : config)", "(s : st B)"], "st B * option (token B)"),
            ("_process", "process2", [("frame", "elem")], ret_tok, ["(c : config)", "(s : st B)"], "st B * option (token B)"),
            ("_post_process", "post_process2", [], ret_tok, ["(c : config)", "(s : st B)"], "st B * option (token B)")):
        if py not in meths:
            raise TranslationError("method %s not found" % py)
        sp = spec(coq, params, ret, extra)
        sp.ret_type = rt
        tr = TokPure(meths[py], sp, tree, cls)
        out.append(_translate(tr, py))
        if py == "_process" and tr.valid_calls != 1:
            raise TranslationError("_process calls the validator %d times (exactly once per frame expected)" % tr.valid_calls)
    # ---- one turn of the loop of _iter_tokens, for a frame and for end of stream (helper methods inlined)
    it = meths.get("_iter_tokens")
    if it is None:
        raise TranslationError("method _iter_tokens not found")
    body = Pure.body_of(it)
    if not (body and isinstance(body[0], ast.Expr) and isinstance(body[0].value, ast.Call) and ast.unparse(body[0].value) == "self._reinitialize()"):
        raise TranslationError("_iter_tokens must start with self._reinitialize()")
    src_name = [a.arg for a in it.args.args if a.arg != "self"]
    if len(src_name) != 1:
        raise TranslationError("_iter_tokens signature")

    def ret_iter(tr, v, env, node):
        if v.ty != "flag":
            bad(node, "return inside the generator loop")
        return "(%s, [%s], %s)" % (st_text(env), "; ".join(env["#emitted"]), v.text)
    cases = []
    for frame_v in (NONE, V("f", "elem")):
        sp = spec("iter_step2", [], ret_iter, [])
        tr = TokPure(it, sp, tree, cls)
        tr.case_frame = frame_v
        env = {src_name[0]: V("", "source"), "#emitted": []}
        for attr, getter, ty in STATE:
            env["self." + attr] = V(getter, ty)
        cases.append(tr.block(body[1:], env, lambda e2: bad(it, "_iter_tokens ends without a loop")))
        if frame_v.ty == "elem" and tr.valid_calls != 1:
            raise TranslationError("one turn of _iter_tokens calls the validator %d times (exactly once per frame expected)" % tr.valid_calls)
    out.append("Definition iter_step2 (c : config) (s : st B) (fr : option (B * bool)) : st B * list (token B) * bool :=\n"
               "  match fr with\n  | None => %s\n  | Some (f, v) => %s\n  end.\n" % (cases[0], cases[1]))
    out.append("End Gen.\n")
    # ---- the constructor's validation chain and _set_mode
    init = meths.get("__init__")
    if init is None:
        raise TranslationError("__init__ not found")
    CFG_STATE = [("min_length", "0", "Z"), ("max_length", "0", "Z"), ("max_continuous_silence", "0", "Z"), ("init_min", "0", "Z"),
                 ("init_max_silent", "0", "Z"), ("_strict_min_length", "false", "bool"), ("_drop_trailing_silence", "false", "bool")]

    def ret_cfg(tr, v, env, node):
        if v.ty == "error":
            return v.text
        if v.ty != "none":
            bad(node, "__init__ returns a value")
        return "Ok (mkConfig %s)" % " ".join(env["self." + a].text for a, _, _ in CFG_STATE)
    sp = Spec("validate2", [], ret_cfg, self_attrs={}, state=CFG_STATE)
    tr = TokPure(init, sp, tree, cls)
    tr.ignored_writes = set(TokPure.IGNORED_WRITES) | {"_is_valid", "validator", "_mode", "_state", "_data", "_contiguous_token", "_init_count",
                                                        "_silence_length", "_start_frame", "_current_frame"}
    params = [a.arg for a in init.args.args if a.arg != "self"]
    if params != ["validator", "min_length", "max_length", "max_continuous_silence", "init_min", "init_max_silence", "mode"]:
        raise TranslationError("constructor signature changed: %r" % params)
    env = {"validator": V('""', "str")}
    for p_ in params[1:]:
        env[p_] = V(p_, "Z")
    for attr, getter, ty in CFG_STATE:
        env["self." + attr] = V(getter, ty)
    body = tr.block(Pure.body_of(init), env, lambda e2: ret_cfg(tr, NONE, e2, init))
    out.append("Definition validate2 (min_length max_length max_continuous_silence init_min init_max_silence mode : Z) : result config :=\n  %s.\n" % body)
    return "\n".join(out) + "\n"


def _translate(tr, py):
    """Pure.translate with the two parameter kinds this class adds: the frame (an element) and the verdict"""
    sp = tr.spec
    fn = tr.fn
    pynames = [a.arg for a in fn.args.args if a.arg != "self"]
    declared = [p for p, _ in sp.params]
    if pynames != declared:
        raise TranslationError("%s: parameters %r differ from the declared %r" % (fn.name, pynames, declared))
    env = {}
    coq_params = list(sp.extra_params)
    for p, ty in sp.params:
        if ty == "elem":
            coq_params.append("(%s : B) (v : bool)" % p)
            env[p] = V(p, "elem")
        elif ty == "bool":
            coq_params.append("(%s : bool)" % p)
            env[p] = V(p, "bool")
    for attr, getter, ty in sp.state:
        env["self." + attr] = V(getter, ty)
    body = tr.block(tr.body_of(fn), env, lambda e2: sp.ret(tr, NONE, e2, fn))
    return "Definition %s %s : %s :=\n  %s.\n" % (sp.coq_name, " ".join(coq_params), sp.ret_type, body)


if __name__ == "__main__":
    import sys
    print(emit(sys.argv[1] if len(sys.argv) > 1 else "/repo/auditok/core.py"))
