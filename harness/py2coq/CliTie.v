(** Tie of the documented option tables to the tables extracted from /repo's
    cmdline.py and cmdline_util.py in this run (CliGen.v). *)
From Coq Require Import String List Bool.
From AV Require Import Cli.Options Cli.OptionsProofs.
From AVGen Require CliGen.
Import ListNotations.
Open Scope string_scope.

Lemma tie_options : CliGen.options = Options.options.
Proof. reflexivity. Qed.

Lemma tie_kwargs : CliGen.kwargs = Options.kwargs.
Proof. reflexivity. Qed.

(** the flow theorem, restated over the generated tables *)
Theorem C15_table_short_gen : map (fun p => flow CliGen.options CliGen.kwargs (fst p)) stated = documented_flow.
Proof. rewrite tie_options, tie_kwargs. exact C15_table_short. Qed.

Theorem C15_table_long_gen : map (fun p => flow CliGen.options CliGen.kwargs (snd p)) stated = documented_flow.
Proof. rewrite tie_options, tie_kwargs. exact C15_table_long. Qed.

Print Assumptions C15_table_short_gen.
Print Assumptions C15_table_long_gen.
