"""Shared machinery of the checks: paths, build, model evaluation (extracted
OCaml driver + vm_compute cross-check), proof step, evidence, verdicts."""
import fcntl
import hashlib
import json
import os
import random
import re
import shutil
import subprocess
import sys
import time

VERIF = os.path.dirname(os.path.dirname(os.path.abspath(__file__)))
REPO = os.environ.get("VERIF_REPO", "/repo")
COQ = os.path.join(VERIF, "coq")
BUILD = os.path.join(VERIF, "build")
GEN = os.path.join(BUILD, "gen")
OCAML = os.path.join(BUILD, "ocaml")
TMP = os.path.join(BUILD, "tmp")
REPLAYS = os.environ.get("VERIF_REPLAY_DIR") or os.path.join(VERIF, "replays")
EVIDENCE = os.environ.get("VERIF_EVIDENCE_DIR") or os.path.join(VERIF, "evidence")
CORPUS = os.path.join(VERIF, "corpus")
NCPU = min(16, os.cpu_count() or 1)

COQ_WARN = ["-w", "-notation-overridden,-deprecated-hint-without-locality,-deprecated-instance-without-locality,-unknown-option"]

FORBIDDEN = re.compile(
    r"\b(Admitted|admit|Axiom|Axioms|Parameter|Parameters|Conjecture|Conjectures|Admit Obligations)\b"
    r"|Unset\s+Guard|Unset\s+Positivity|Unset\s+Universe\s+Checking|bypass_check|type-in-type|impredicative-set")


class CheckError(Exception):
    pass


def seed():
    try:
        return int(os.environ.get("VERIF_SEED", "0"))
    except ValueError:
        return 0


def rng(tag=""):
    return random.Random("%d/%s" % (seed(), tag))


def sh(cmd, cwd=None, timeout=None, env=None, input=None):
    p = subprocess.run(cmd, cwd=cwd, timeout=timeout, env=env, input=input,
                       stdout=subprocess.PIPE, stderr=subprocess.STDOUT, text=True)
    return p.returncode, p.stdout


class BuildLock:
    def __enter__(self):
        os.makedirs(BUILD, exist_ok=True)
        self.f = open(os.path.join(BUILD, ".lock"), "w")
        fcntl.flock(self.f, fcntl.LOCK_EX)
        return self

    def __exit__(self, *a):
        fcntl.flock(self.f, fcntl.LOCK_UN)
        self.f.close()


def strip_coq_comments(text):
    out = []
    depth = 0
    i = 0
    n = len(text)
    instr = False
    while i < n:
        if depth == 0 and text[i] == '"':
            instr = not instr
            out.append(text[i]); i += 1
            continue
        if not instr and text.startswith("(*", i):
            depth += 1; i += 2
            continue
        if not instr and depth > 0 and text.startswith("*)", i):
            depth -= 1; i += 2
            continue
        if depth == 0:
            out.append(text[i])
        i += 1
    return "".join(out)


def forbidden_scan(paths=None):
    """Scan every .v of the development (comments stripped) for escape hatches."""
    hits = []
    roots = paths or [COQ, os.path.join(VERIF, "harness", "py2coq")]
    nfiles = 0
    for root in roots:
        for d, _, fs in os.walk(root):
            for f in fs:
                if f.endswith(".v"):
                    nfiles += 1
                    p = os.path.join(d, f)
                    txt = strip_coq_comments(open(p).read())
                    for m in FORBIDDEN.finditer(txt):
                        hits.append("%s: %s" % (os.path.relpath(p, VERIF), m.group(0)))
                    # Variable / Hypothesis outside a Section
                    depth = 0
                    for line in txt.splitlines():
                        s = line.strip()
                        if re.match(r"^(Section|Module)\b", s) and not re.match(r"^Module\s+\w+\s*:=", s):
                            depth += 1
                        elif re.match(r"^End\b", s):
                            depth -= 1
                        elif depth <= 0 and re.match(r"^(Variable|Variables|Hypothesis|Hypotheses|Context)\b", s):
                            hits.append("%s: %s outside a section" % (os.path.relpath(p, VERIF), s.split()[0]))
    return nfiles, hits


def ensure_makefile():
    mk = os.path.join(COQ, "Makefile")
    cp = os.path.join(COQ, "_CoqProject")
    if not os.path.exists(mk) or os.path.getmtime(mk) < os.path.getmtime(cp):
        rc, out = sh(["coq_makefile", "-f", "_CoqProject", "-o", "Makefile"], cwd=COQ, timeout=120)
        if rc != 0:
            raise CheckError("coq_makefile failed:\n" + out)


def build_all(jobs=NCPU, timeout=3600):
    """make the whole hand-written development (incremental) + the OCaml driver."""
    with BuildLock():
        ensure_makefile()
        rc, out = sh(["make", "-j%d" % jobs], cwd=COQ, timeout=timeout)
        if rc != 0:
            raise CheckError("make failed:\n" + out[-4000:])
        build_driver()
    return out


def build_driver():
    os.makedirs(OCAML, exist_ok=True)
    api_vo = os.path.join(COQ, "Extract", "Api.vo")
    drv = os.path.join(OCAML, "driver")
    src = os.path.join(VERIF, "harness", "ocaml", "driver.ml")
    if (os.path.exists(drv) and os.path.getmtime(drv) >= os.path.getmtime(api_vo)
            and os.path.getmtime(drv) >= os.path.getmtime(src)):
        return
    rc, out = sh(["coqc", "-Q", COQ, "AV"] + COQ_WARN + [os.path.join(COQ, "Extract", "Extract.v")], cwd=OCAML, timeout=900)
    if rc != 0:
        raise CheckError("extraction failed:\n" + out[-3000:])
    shutil.copy(src, os.path.join(OCAML, "driver.ml"))
    rc, out = sh(["ocamlfind", "ocamlopt", "-O3", "-package", "zarith", "-linkpkg", "-w", "-a",
                  "api.mli", "api.ml", "driver.ml", "-o", "driver.new"], cwd=OCAML, timeout=600)
    if rc != 0:
        raise CheckError("ocaml build failed:\n" + out[-3000:])
    os.replace(os.path.join(OCAML, "driver.new"), drv)


# ---------------------------------------------------------------- the model

def dumps(t):
    return json.dumps(t, separators=(",", ":"))


def model_eval(cases, procs=NCPU):
    """cases: list of (op, tree). Returns list of result trees (extracted OCaml)."""
    if not cases:
        return []
    drv = os.path.join(OCAML, "driver")
    nchunks = max(1, min(procs, len(cases) // 200 + 1))
    size = (len(cases) + nchunks - 1) // nchunks
    chunks = [cases[i:i + size] for i in range(0, len(cases), size)]
    procs_ = []
    env = dict(os.environ)
    for ch in chunks:
        data = "".join("%d %s\n" % (op, dumps(t)) for op, t in ch)
        p = subprocess.Popen(["bash", "-c", "ulimit -s unlimited 2>/dev/null; exec '%s'" % drv],
                             stdin=subprocess.PIPE, stdout=subprocess.PIPE, stderr=subprocess.PIPE, text=True, env=env)
        procs_.append((p, data))
    # feed and collect (communicate sequentially is fine: each has its own pipes and buffers via threads)
    import threading
    results = [None] * len(procs_)

    def run(i, p, data):
        out, err = p.communicate(data)
        results[i] = (p.returncode, out, err)

    ths = [threading.Thread(target=run, args=(i, p, d)) for i, (p, d) in enumerate(procs_)]
    for t in ths:
        t.start()
    for t in ths:
        t.join()
    outs = []
    for (rc, out, err), ch in zip(results, chunks):
        lines = out.splitlines()
        if rc != 0 or len(lines) != len(ch):
            raise CheckError("model driver failed (rc=%s, %d/%d lines): %s" % (rc, len(lines), len(ch), err[-500:]))
        outs.extend(json.loads(l) for l in lines)
    return outs


def coq_tree(t):
    if isinstance(t, bool):
        t = int(t)
    if isinstance(t, int):
        return "(Leaf %s)" % (str(t) if t >= 0 else "(%d)" % t)
    return "(Node [" + "; ".join(coq_tree(x) for x in t) + "])"


def vm_crosscheck(cases, outs, tag, max_cases=40):
    """Re-evaluate a sample of the cases inside Coq (vm_compute) and require the
    extracted OCaml's answers: a bug in extraction or driver shows up here.
    Returns the number of cases cross-checked."""
    if not cases:
        return 0
    r = rng("vm/" + tag)
    idx = list(range(len(cases)))
    r.shuffle(idx)
    idx = sorted(idx[:max_cases])
    d = os.path.join(TMP, "vm_%s_%d" % (tag, os.getpid()))
    os.makedirs(d, exist_ok=True)
    try:
        lines = ["From Coq Require Import ZArith List.", "From AV Require Import Extract.Tree Extract.Api.",
                 "Import ListNotations.", "Open Scope Z_scope."]
        for k, i in enumerate(idx):
            op, t = cases[i]
            if len(dumps(t)) > 6000 or len(dumps(outs[i])) > 6000:
                continue
            lines.append("Goal dispatch %d %s = %s. Proof. vm_compute. reflexivity. Qed." % (op, coq_tree(t), coq_tree(outs[i])))
        p = os.path.join(d, "cases.v")
        open(p, "w").write("\n".join(lines) + "\n")
        rc, out = sh(["coqc", "-Q", COQ, "AV"] + COQ_WARN + [p], cwd=d, timeout=900)
        if rc != 0:
            raise CheckError("extracted OCaml and vm_compute disagree (or cases.v failed):\n" + out[-2000:])
        return len(idx)
    finally:
        shutil.rmtree(d, ignore_errors=True)


# ---------------------------------------------------------------- proof step

def proof_step(prop_files, timeout=1800):
    """(Re)compile the property files after an incremental make of their
    dependencies; returns dict with obligations, assumptions and the checker cmd."""
    build_all()
    nfiles, hits = forbidden_scan()
    if hits:
        raise CheckError("forbidden constructs in the development: " + "; ".join(hits[:10]))
    theorems = []
    assumptions = {}
    cmds = []
    for pf in prop_files:
        path = os.path.join(COQ, pf)
        cmd = ["coqc", "-Q", COQ, "AV"] + COQ_WARN + [path]
        with BuildLock():
            rc, out = sh(cmd, cwd=COQ, timeout=timeout)
        cmds.append("coqc -Q coq AV " + pf)
        if rc != 0:
            raise CheckError("property file %s does not compile:\n%s" % (pf, out[-3000:]))
        txt = strip_coq_comments(open(path).read())
        names = re.findall(r"^\s*(?:Theorem|Corollary|Lemma)\s+(\w+)", txt, re.M)
        theorems.extend("%s:%s" % (pf, n) for n in names)
        assumptions.update(parse_assumptions(out, re.findall(r"Print Assumptions\s+(\w+)", txt)))
    res = {"files_scanned": nfiles, "theorems": theorems, "assumptions": assumptions,
           "checker_cmd": "make -C coq && " + " && ".join(cmds)}
    if os.environ.get("VERIF_TIER_CURRENT") == "thorough" and not os.environ.get("VERIF_NO_COQCHK"):
        res["coqchk"] = coqchk(prop_files)
        res["checker_cmd"] += " && coqchk -silent -o -Q coq AV " + " ".join(_logical(pf) for pf in prop_files)
    return res


def _logical(pf):
    return "AV." + pf[:-2].replace("/", ".")


def coqchk(prop_files, timeout=3000):
    """independent re-check of the compiled property files and everything they depend on; returns the axioms it lists"""
    rc, out = sh(["coqchk", "-silent", "-o", "-Q", COQ, "AV"] + [_logical(pf) for pf in prop_files], cwd=COQ, timeout=timeout)
    if rc != 0:
        raise CheckError("coqchk rejects the compiled development:\n" + out[-3000:])
    m = re.search(r"\* Axioms:(.*?)\n\s*\n\* Constants/Inductives relying on type-in-type:\s*(.*?)\n", out, re.S)
    axioms = [x.strip() for x in m.group(1).split("\n") if x.strip()] if m else ["<unparsed>"]
    if axioms == ["<none>"]:
        axioms = []
    bad = [l for l in re.findall(r"\* (?:Constants/Inductives relying on type-in-type|Constants/Inductives relying on unsafe \(co\)fixpoints|Inductives whose positivity is assumed):\s*(\S.*)", out) if l.strip() != "<none>"]
    if bad:
        raise CheckError("coqchk reports disabled kernel checks: %r" % bad)
    return {"axioms": axioms, "ok": True}


def parse_assumptions(out, names):
    """coqc prints, for each `Print Assumptions x.`, either 'Closed under the
    global context' or 'Axioms:' followed by the list."""
    res = {}
    blocks = re.split(r"(?=Closed under the global context|Axioms:)", out)
    blocks = [b for b in blocks if b.startswith("Closed") or b.startswith("Axioms:")]
    for name, b in zip(names, blocks):
        if b.startswith("Closed"):
            res[name] = []
        else:
            axs = re.findall(r"^([A-Za-z_][\w.']*)\s*(?::|$)", b[len("Axioms:"):], re.M)
            res[name] = sorted(set(axs))
    return res


# ---------------------------------------------------------------- known findings / verdicts

def load_known():
    p = os.path.join(VERIF, "known_findings.json")
    if not os.path.exists(p):
        return []
    return json.load(open(p)).get("findings", [])


class Result:
    def __init__(self, prop, tier):
        self.prop = prop
        self.tier = tier
        self.t0 = time.time()
        self.violations = []       # list of dict(replay payload)
        self.tie_issues = []       # translation-tie lemmas that could not be re-established (see tie_undischarged)
        self.known_hits = []
        self.coverage = {"evaluations": 0, "distinct_nontrivial": 0, "samples": [], "rule": ""}
        self.assumptions = []
        self.notes = {}

    def add_violation(self, what, payload, witness_key=None, no_input=False):
        """payload: JSON-able replay. witness_key: string used to match known findings."""
        for k in load_known():
            if k.get("status") == "known" and k.get("property") == self.prop and witness_key is not None \
                    and k.get("witness_key") == witness_key:
                self.known_hits.append((k, what))
                return
        self.violations.append({"what": what, "payload": payload, "no_input": no_input})

    def tie_undischarged(self, what, payload):
        """A translation-tie lemma could not be re-established on this tree, while the correspondence runs (model executed
        against the implementation) agree everywhere and the statement's oracle found no failing input.  The hand-written model
        is then still tied to the code by the correspondence; check.py deepens the search over further seeds before concluding."""
        self.tie_issues.append({"what": what, "payload": payload})

    def finish(self, proof=None, extra_cov=None, level="proof"):
        wall = time.time() - self.t0
        cov = dict(self.coverage)
        if extra_cov:
            cov.update(extra_cov)
        tie_only = bool(self.tie_issues) and not self.violations
        deepen_round = int(os.environ.get("VERIF_DEEPEN", "0") or 0)
        if proof is not None:
            obligations = list(proof["theorems"]) + list(proof.get("tie_obligations", []))
            undis = list(proof.get("undischarged", []))
            if tie_only:
                # the tie lemmas that do not check are not counted as obligations of this run: the tie of record is the correspondence
                obligations = [o for o in obligations if o not in undis]
                cov["translation_tie"] = {"status": "undischarged on this tree", "lemmas": undis, "detail": [t["what"][:600] for t in self.tie_issues],
                                          "tie_of_record": "correspondence: the model's executable definitions (extracted, cross-checked by vm_compute) run against the implementation on the cases counted here, deepened over %d further seed(s); no disagreement, and the statement's oracle found no failing input" % deepen_round}
                undis = []
            cov["obligations"] = len(obligations)
            cov["discharged"] = len(obligations) - len(undis)
            cov["obligation_names"] = obligations
            cov["undischarged"] = undis
            cov["checker_cmd"] = proof["checker_cmd"]
            axioms = sorted({a for v in proof["assumptions"].values() for a in v})
            tb = ["Coq 8.16.1 kernel (coqc; vm_compute used for reflection on finite domains and non-vacuity examples; no native_compute)"]
            tb.append("Print Assumptions: " + ("closed under the global context for every property theorem" if not axioms
                                               else "standard-library axioms only: " + ", ".join(axioms)))
            if proof.get("coqchk"):
                tb.append("coqchk -o (independent checker) re-checked the property files and their dependencies; axioms it lists: " + (", ".join(proof["coqchk"]["axioms"]) or "none"))
            tb.extend(proof.get("trusted", []))
            cov["trusted_base"] = tb
            cov["assumptions_per_theorem"] = proof["assumptions"]
        ev = {
            "property_id": self.prop, "tier": self.tier, "seed": seed(), "level": level,
            "coverage": cov, "assumptions": self.assumptions, "wall_s": round(wall, 2),
            "violations": len(self.violations),
        }
        if self.notes:
            ev["notes"] = self.notes
        os.makedirs(EVIDENCE, exist_ok=True)
        tmp = os.path.join(EVIDENCE, "%s.json.tmp%d" % (self.prop, os.getpid()))
        json.dump(ev, open(tmp, "w"), indent=1, default=str)
        os.replace(tmp, os.path.join(EVIDENCE, "%s.json" % self.prop))
        for k, what in self.known_hits[:20]:
            print("KNOWN-FINDING: property=%s %s (%s)" % (self.prop, k.get("id", "?"), what))
        if tie_only and deepen_round < DEEPEN_ROUNDS.get(self.tier, 1):
            return 3                 # check.py runs the search again under another seed
        for t in self.tie_issues[:3] if tie_only else []:
            print("TIE-UNDISCHARGED property=%s %s" % (self.prop, t["what"][:400].replace("\n", " ")))
        if self.violations:
            os.makedirs(REPLAYS, exist_ok=True)
            v = self.violations[0]
            path = os.path.join(REPLAYS, "%s-%s-%d.json" % (self.prop, self.tier, int(time.time())))
            json.dump({"property": self.prop, "what": v["what"], "replay": v["payload"],
                       "all_violations": [x["what"] for x in self.violations[:20]],
                       "tie_lemmas_that_no_longer_check": self.tie_issues[:5]}, open(path, "w"), indent=1, default=str)
            tail = " no-failing-input-found" if v["no_input"] else ""
            print("VIOLATION property=%s replay=%s%s" % (self.prop, os.path.relpath(path, VERIF), tail))
            for x in self.violations[:5]:
                print("  - " + x["what"][:300])
            return 1
        print("OK property=%s tier=%s wall=%.1fs evaluations=%s obligations=%s" % (
            self.prop, self.tier, wall, cov.get("evaluations"), cov.get("obligations")))
        return 0


DEEPEN_ROUNDS = {"quick": 3, "thorough": 1}


def sha_files(paths):
    h = hashlib.sha256()
    for p in paths:
        h.update(p.encode())
        try:
            h.update(open(p, "rb").read())
        except OSError:
            h.update(b"<missing>")
    return h.hexdigest()[:16]


def prune_gen(keep=40):
    if not os.path.isdir(GEN):
        return
    ds = sorted((os.path.getmtime(os.path.join(GEN, d)), d) for d in os.listdir(GEN))
    for _, d in ds[:-keep]:
        shutil.rmtree(os.path.join(GEN, d), ignore_errors=True)


def import_auditok():
    """Import the implementation from REPO's working tree (never an installed copy)."""
    if REPO not in sys.path:
        sys.path.insert(0, REPO)
    for m in list(sys.modules):
        if m == "auditok" or m.startswith("auditok."):
            del sys.modules[m]
    import auditok  # noqa
    if not os.path.abspath(auditok.__file__).startswith(os.path.abspath(REPO)):
        raise CheckError("auditok imported from %s, not from %s" % (auditok.__file__, REPO))
    return auditok


def fhex_me(x):
    """float -> [m, e] with x == m * 2**e exactly."""
    import math
    x = float(x)
    if x == 0 or not math.isfinite(x):
        return [0, 0]
    m, e = math.frexp(x)
    return [int(m * (1 << 53)), e - 53]


def me_float(t):
    import math
    return math.ldexp(t[0], t[1])
