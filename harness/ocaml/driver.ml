(* Driver for the extracted API: reads one case per line "<op> <tree>" on stdin,
   prints the result tree on stdout. Trees: integers and [a,b,...] lists.
   Integers of any size (zarith is used only to convert decimal text to and
   from the extracted binary positive/Z). *)
module ZZ = Z
open Api

let rec pos_of_z (n : ZZ.t) : positive =
  if ZZ.equal n ZZ.one then XH
  else if ZZ.testbit n 0 then XI (pos_of_z (ZZ.shift_right n 1))
  else XO (pos_of_z (ZZ.shift_right n 1))

let coqz_of_z (n : ZZ.t) : z =
  let s = ZZ.sign n in
  if s = 0 then Z0 else if s > 0 then Zpos (pos_of_z n) else Zneg (pos_of_z (ZZ.neg n))

let rec z_of_pos (p : positive) : ZZ.t =
  match p with
  | XH -> ZZ.one
  | XO q -> ZZ.shift_left (z_of_pos q) 1
  | XI q -> ZZ.succ (ZZ.shift_left (z_of_pos q) 1)

let z_of_coqz (x : z) : ZZ.t =
  match x with Z0 -> ZZ.zero | Zpos p -> z_of_pos p | Zneg p -> ZZ.neg (z_of_pos p)

(* parser *)
let parse_tree (s : string) (i : int ref) : tree =
  let n = String.length s in
  let rec skip () = while !i < n && (s.[!i] = ' ' || s.[!i] = ',') do incr i done
  and tree () =
    skip ();
    if !i >= n then failwith "unexpected end";
    if s.[!i] = '[' then begin
      incr i;
      let items = ref [] in
      let fin = ref false in
      while not !fin do
        skip ();
        if !i >= n then failwith "unterminated list";
        if s.[!i] = ']' then (incr i; fin := true)
        else items := tree () :: !items
      done;
      Node (List.rev !items)
    end else begin
      let j = !i in
      if s.[!i] = '-' then incr i;
      while !i < n && s.[!i] >= '0' && s.[!i] <= '9' do incr i done;
      if !i = j then failwith ("bad char at " ^ string_of_int j);
      Leaf (coqz_of_z (ZZ.of_string (String.sub s j (!i - j))))
    end
  in tree ()

let rec print_tree (b : Buffer.t) (t : tree) : unit =
  match t with
  | Leaf x -> Buffer.add_string b (ZZ.to_string (z_of_coqz x))
  | Node l ->
      Buffer.add_char b '[';
      List.iteri (fun k x -> if k > 0 then Buffer.add_char b ','; print_tree b x) l;
      Buffer.add_char b ']'

let () =
  let b = Buffer.create 65536 in
  (try
    while true do
      let line = Stdlib.input_line Stdlib.stdin in
      if String.length line > 0 then begin
        let i = ref 0 in
        let op = parse_tree line i in
        let a = parse_tree line i in
        let op = match op with Leaf z -> z | Node _ -> Z0 in
        Buffer.clear b;
        (try print_tree b (dispatch op a)
         with Stack_overflow -> Buffer.clear b; Buffer.add_string b "[1,-2]");
        Buffer.add_char b '\n';
        Stdlib.print_string (Buffer.contents b)
      end
    done
  with End_of_file -> ());
  Stdlib.flush Stdlib.stdout
