"""C11: audio sources. Coq theorems in IO/SourceProofs.v + correspondence of
BufferAudioSource (all operations), RawAudioSource, WaveAudioSource and
StdinAudioSource (open/close/read) with the extracted state machines, on
seeded random and exhaustive short operation sequences."""
import io
import itertools
import os
import sys
import shutil
import wave

from .. import common as C
from .tok import exc_code
from ..py2coq import misctie

FORMATS = [(1, 1), (2, 1), (1, 2), (2, 2), (4, 1), (4, 3)]


def mk_bytes(n, bps):
    return bytes(((i * 5 + 1) % 255) + 1 for i in range(n * bps))


def enc_out(v):
    if v is None:
        return [1]
    if isinstance(v, (bytes, bytearray)):
        return [2, list(v)]
    raise ValueError(v)


def run_buffer(data, sr, w, ch, ops):
    """ops in model encoding; returns outs in model encoding"""
    from auditok.io import BufferAudioSource
    src = BufferAudioSource(data, sr, w, ch)
    outs = []
    for o in ops:
        try:
            k = o[0]
            if k == 0:
                src.open(); outs.append([0])
            elif k == 1:
                src.close(); outs.append([0])
            elif k == 2:
                src.rewind(); outs.append([0])
            elif k == 3:
                outs.append(enc_out(src.read(o[1][0] if o[1] else None)))
            elif k == 4:
                outs.append([3, src.position])
            elif k == 5:
                outs.append([4, C.fhex_me(src.position_s)])
            elif k == 6:
                outs.append([3, src.position_ms])
            elif k == 7:
                src.position = o[1]; outs.append([0])
            elif k == 8:
                src.position_s = C.me_float(o[1]); outs.append([0])
            elif k == 9:
                src.position_ms = o[1]; outs.append([0])
        except Exception as e:
            outs.append([5, exc_code(e)])
    return outs


def run_buffer_pair(data, sr, w, ch, ops):
    """the same operations on a source while a second source of the same format (other audio) is operated in lock step"""
    from auditok.io import BufferAudioSource
    other = bytes(reversed(data))
    a, b = BufferAudioSource(data, sr, w, ch), BufferAudioSource(other, sr, w, ch)
    outs = []
    for o in ops:
        for src, keep in ((a, True), (b, False)):
            try:
                k = o[0]
                if k == 0:
                    src.open(); r_ = [0]
                elif k == 1:
                    src.close(); r_ = [0]
                elif k == 2:
                    src.rewind(); r_ = [0]
                elif k == 3:
                    r_ = enc_out(src.read(o[1][0] if o[1] else None))
                elif k == 4:
                    r_ = [3, src.position]
                elif k == 5:
                    r_ = [4, C.fhex_me(src.position_s)]
                elif k == 6:
                    r_ = [3, src.position_ms]
                elif k == 7:
                    src.position = o[1]; r_ = [0]
                elif k == 8:
                    src.position_s = C.me_float(o[1]); r_ = [0]
                else:
                    src.position_ms = o[1]; r_ = [0]
            except Exception as e:
                r_ = [5, exc_code(e)]
            if keep:
                outs.append(r_)
    return outs


def run_filelike(kind, path, data, sr, w, ch, ops, burst=0):
    import auditok.io as aio
    if kind == "raw":
        src = aio.RawAudioSource(path, sr, w, ch)
    elif kind == "wav":
        src = aio.WaveAudioSource(path)
    else:
        class Bursty(io.RawIOBase):
            """a pipe-like raw stream: each low-level read hands over at most `burst` bytes"""
            def __init__(self, payload, burst):
                self.p, self.i, self.burst = payload, 0, burst

            def readable(self):
                return True

            def readinto(self, b):
                k = min(len(b), self.burst, len(self.p) - self.i)
                b[:k] = self.p[self.i:self.i + k]
                self.i += k
                return k

        class FakeStdin:
            buffer = io.BytesIO(data) if not burst else io.BufferedReader(Bursty(data, burst), buffer_size=max(16, burst))
        old = sys.stdin
        sys.stdin = FakeStdin
        try:
            src = aio.StdinAudioSource(sr, w, ch)
        finally:
            sys.stdin = old
    outs = []
    for o in ops:
        try:
            k = o[0]
            if k == 0:
                src.open(); outs.append([0])
            elif k == 1:
                src.close(); outs.append([0])
            elif k == 3:
                outs.append(enc_out(src.read(o[1][0] if o[1] else None)))
        except Exception as e:
            outs.append([5, exc_code(e)])
    try:
        src.close()
    except Exception:
        pass
    return outs


def chk_reads(data, bps, ops, outs, restart=True, filelike=False, sr=None):
    """the statement itself on the implementation's outputs (read contract)"""
    pos, is_open = 0, False
    n = len(data)
    for o, r in zip(ops, outs):
        k = o[0]
        if k == 0:
            if filelike and restart and not is_open:
                pos = 0
            is_open = True
        elif k == 1:
            is_open = False
            if not filelike:
                pos = 0
        elif k == 2:
            pos = 0
        elif k == 3:
            if not is_open:
                if r != [5, 4]:
                    return "read on a source that is not open returned %r instead of raising an I/O error" % (r,)
                continue
            rem = (n - pos) // bps
            want = rem if (not o[1] or o[1][0] < 0) else min(o[1][0], rem)
            if want == 0:
                if r != [1]:
                    return "read with nothing to return gave %r instead of None" % (r,)
            else:
                exp = list(data[pos:pos + want * bps])
                if r != [2, exp]:
                    if len(exp) > 64:
                        return "read(%r) at sample %d returned %s, expected exactly %d samples (%d bytes)" % (
                            o[1], pos // bps, ("%d bytes (%s samples)" % (len(r[1]), len(r[1]) / bps)) if r[0] == 2 else repr(r)[:80], want, len(exp))
                    return "read(%r) at sample %d returned %r, expected exactly %d samples %r" % (o[1], pos // bps, r, want, exp)
                pos += want * bps
        elif k == 4:
            if r != [3, pos // bps]:
                return "position reads back %r after consuming %d samples" % (r, pos // bps)
        elif k in (7, 8, 9):
            ns = n // bps
            if k == 7:
                p = o[1]
            elif k == 8:
                # seconds: the sample index is the whole-sample truncation of rate * t (the statement fixes only the unit)
                p = int(sr * C.me_float(o[1])) if sr else None
            else:
                # milliseconds: the whole-sample truncation of rate * ms / 1000, exactly (ms is an int here)
                p = (abs(sr * o[1]) // 1000) * (1 if sr * o[1] >= 0 else -1) if sr else None
            if p is None:
                return None
            norm = p + ns if p < 0 else p
            if 0 <= norm <= ns:
                if r != [0]:
                    return "setting the position to sample %d (of %d; negative counts from the end) returned %r instead of succeeding" % (p, ns, r)
                pos = norm * bps
            else:
                if r != [5, 3]:
                    return "setting the position to out-of-range sample %d (of %d) returned %r instead of raising IndexError" % (p, ns, r)
    return None


def rand_ops(r, n_samples, sr, length):
    ops = [[0]] if r.random() < 0.85 else []
    for _ in range(length):
        k = r.random()
        if k < 0.45:
            ops.append([3, r.choice([[], [-1], [0], [1], [2], [3], [r.randint(0, n_samples + 2)], [r.choice([2 ** 31, 2 ** 62, 2 ** 63 - 1, 2 ** 63, 2 ** 64 + 5])]])])
        elif k < 0.55:
            ops.append([r.choice([4, 5, 6])])
        elif k < 0.70:
            ops.append([7, r.randint(-n_samples - 2, n_samples + 2)])
        elif k < 0.78:
            t = r.choice([0.0, 0.5, 1.0 / sr, 1.5 / sr, -1.0 / sr, -2.5 / sr, n_samples / sr, (n_samples + 1) / sr, r.uniform(-1.2 * n_samples / sr, 1.2 * n_samples / sr)])
            ops.append([8, C.fhex_me(t)])
        elif k < 0.86:
            ops.append([9, r.choice([0, 100, -100, 250, 1000, -1000, r.randint(-1500, 1500)])])
        elif k < 0.92:
            ops.append([2])
        elif k < 0.97:
            ops.append([1])
        else:
            ops.append([0])
    return ops


def run(prop, tier):
    res = C.Result(prop, tier)
    proof = C.proof_step(["Props/C11.v"])
    proof["trusted"] = [
        "model IO/Source.v written by hand from io.py; BufferAudioSource.read / position (get, set) / position_ms (get) are translated from /repo on every run (harness/py2coq/misc.py, group buf) and proved equal to bstep for all states and arguments (TieBuf.v); FileAudioSource.read with the _read_from_stream of the raw-file, wave-file and stdin sources inlined likewise (group fsrc, TieFsrc.v = fstep; the primitives f.read(n) and wave.readframes(n) are given their documented meaning by the translator: at most n bytes / frames from the cursor, everything left for None / -1); open / close / rewind and the seconds / ms setters are tied by correspondence (seeded random + exhaustive short sequences + large requests)",
        "extraction (ExtrOcamlBasic only) + OCaml driver, cross-checked by vm_compute on a sample",
        "file-system, wave module and sys.stdin replacement are exercised, not modelled; PyAudioSource cannot be run here",
    ]
    C.import_auditok()
    tie = misctie.tie_group("buf")
    tie_f = misctie.tie_group("fsrc")
    proof["tie_obligations"] = tie["obligations"] + tie_f["obligations"]
    proof["undischarged"] = ([] if tie["ok"] else tie["obligations"]) + ([] if tie_f["ok"] else tie_f["obligations"])
    if not tie_f["ok"]:
        tie = {"ok": False, "obligations": tie["obligations"] + tie_f["obligations"], "detail": ((tie["detail"] + " || ") if not tie["ok"] else "") + tie_f["detail"]}
    elif tie["ok"]:
        tie = dict(tie, detail=tie["detail"] + " || " + tie_f["detail"])
    quick = tier == "quick"
    r = C.rng("C11")
    cases, impl, meta = [], [], []
    viol = None
    # ---- buffer source, random sequences
    for _ in range(3000 if quick else 30000):
        w, ch = r.choice(FORMATS); sr = r.choice([4, 10, 16, 8000])
        n = r.randint(0, 8)
        data = mk_bytes(n, w * ch)
        ops = rand_ops(r, n, sr, r.randint(1, 14 if quick else 40))
        outs = run_buffer(data, sr, w, ch, ops)
        cases.append((20, [[list(data), sr, w * ch], ops])); impl.append(outs)
        meta.append({"source": "buffer", "samples": n, "format(sr,sw,ch)": [sr, w, ch], "ops": ops})
        if viol is None:
            wv = chk_reads(data, w * ch, ops, outs, sr=sr)
            if wv:
                viol = {"what": wv, **meta[-1], "impl_outputs": outs}
        if viol is None and n and len(cases) % 5 == 0:
            outs2 = run_buffer_pair(data, sr, w, ch, ops)
            if outs2 != outs:
                k_ = [x == y for x, y in zip(outs, outs2)].index(False)
                viol = {"what": "a buffer source answers operation no. %d (%r) with %r when a second source of the same format is operated in lock step, and with %r alone" % (k_, ops[k_], outs2[k_], outs[k_]), **meta[-1]}
    # ---- buffer source: positions in milliseconds at rates that are not multiples of 1000, where rate * ms / 1000 is a whole
    # number of samples (the float quotient rate / 1000 is inexact there: only the exact product decides the sample)
    for _ in range(400 if quick else 4000):
        w, ch = r.choice(FORMATS)
        d_ = r.choice([1, 2, 4, 5, 8, 10, 20, 25, 40, 50, 100, 125, 200, 250, 500]); m_ = r.choice([3, 7, 9, 11, 13, 21, 23, 29, 49])
        sr = d_ * m_
        n = r.randint(m_, 3 * m_ + 5)
        data = mk_bytes(n, w * ch)
        ops = [[0]]
        for _k in range(r.randint(1, 4)):
            j_ = r.randint(-(n // m_), n // m_)
            ms_ = j_ * m_ * 1000 // sr + r.choice([0, 0, 0, 1, -1])
            ops += [[9, ms_], [4], [3, [r.choice([1, 2])]], [4]]
        outs = run_buffer(data, sr, w, ch, ops)
        cases.append((20, [[list(data), sr, w * ch], ops])); impl.append(outs)
        meta.append({"source": "buffer", "samples": n, "format(sr,sw,ch)": [sr, w, ch], "ops": ops})
        if viol is None:
            wv = chk_reads(data, w * ch, ops, outs, sr=sr)
            if wv:
                viol = {"what": wv, **meta[-1], "impl_outputs": outs}
    # ---- buffer source, exhaustive short sequences over a small alphabet
    alpha = [[0], [1], [2], [3, []], [3, [1]], [3, [2]], [3, [-1]], [4], [7, 1], [7, -1], [7, 9]]
    for n in (0, 3):
        for w, ch in ((1, 1), (2, 2)):
            data = mk_bytes(n, w * ch)
            for L in range(1, 4 if quick else 5):
                for seq in itertools.product(alpha, repeat=L):
                    ops = [[0]] + list(seq)
                    outs = run_buffer(data, 10, w, ch, ops)
                    cases.append((20, [[list(data), 10, w * ch], ops])); impl.append(outs)
                    meta.append({"source": "buffer", "samples": n, "format(sr,sw,ch)": [10, w, ch], "ops": ops})
                    if viol is None:
                        wv = chk_reads(data, w * ch, ops, outs, sr=10)
                        if wv:
                            viol = {"what": wv, **meta[-1], "impl_outputs": outs}
    # ---- file-like sources
    tmpd = os.path.join(C.TMP, "c11_%d" % os.getpid())
    os.makedirs(tmpd, exist_ok=True)
    from auditok.io import from_file as aio_from_file
    prev_len = {}
    try:
        for it in range(400 if quick else 4000):
            w, ch = r.choice(FORMATS); sr = r.choice([10, 16, 8000])
            n = r.randint(0, 8)
            data = mk_bytes(n, w * ch)
            ops = [[0]] if r.random() < 0.9 else []
            for _ in range(r.randint(1, 10)):
                k = r.random()
                if k < 0.75:
                    ops.append([3, r.choice([[], [-1], [0], [1], [2], [3], [n + 1]])])
                elif k < 0.88:
                    ops.append([1])
                else:
                    ops.append([0])
            for kind in ("raw", "wav", "stdin"):
                ops_k = [o for o in ops if not (kind == "stdin" and o[0] == 3 and (not o[1] or o[1][0] < 0))]   # stdin: read(None) / read(<0) are not part of the statement
                path = os.path.join(tmpd, "a.%s" % kind)
                if kind == "raw":
                    open(path, "wb").write(data)
                elif kind == "wav":
                    with wave.open(path, "wb") as f:
                        f.setframerate(sr); f.setsampwidth(w); f.setnchannels(ch); f.writeframes(data)
                # the same path held other audio a moment ago (same size every few iterations) and carries the same time stamps
                # (cp -p, rsync -t): a source made from it now, loaded at once, hands out what the file holds now
                if kind in ("raw", "wav") and viol is None:
                    keep_path, keep_data = path, data
                    path = os.path.join(tmpd, "e.%s" % kind)
                    data = bytes((b + 37 * it) % 256 for b in data)
                    if kind == "raw":
                        open(path, "wb").write(data)
                    else:
                        with wave.open(path, "wb") as f:
                            f.setframerate(sr); f.setsampwidth(w); f.setnchannels(ch); f.writeframes(data)
                    os.utime(path, (1700000000, 1700000000))
                    try:
                        esrc = aio_from_file(path, audio_format="raw", sampling_rate=sr, sample_width=w, channels=ch) if kind == "raw" else aio_from_file(path)
                        esrc.open(); got_all = esrc.read(-1) if n else esrc.read(1); esrc.close()
                        got_all = b"" if got_all is None else bytes(got_all)
                    except Exception as e:
                        got_all = "raised %s: %s" % (type(e).__name__, e)
                    if got_all != data:
                        viol = {"what": "from_file(%r) (loaded at once) on a %s file that has just replaced, in place, another file of %s size with the same time stamps: the source hands out %r, the file holds %r" % (
                            os.path.basename(path), kind, "the same" if prev_len.get(kind) == len(data) else "another", list(got_all)[:24] if isinstance(got_all, bytes) else got_all, list(data)[:24]),
                                "source": kind + " (eager)", "samples": n, "format(sr,sw,ch)": [sr, w, ch]}
                    prev_len[kind] = len(data)
                    path, data = keep_path, keep_data
                # standard input fed in bursts that are not aligned with samples or requests (a pipe), every other case
                burst = (0 if it % 2 == 0 else r.choice([1, 3, 5, 6, 7])) if kind == "stdin" else 0
                outs = run_filelike(kind, path, data, sr, w, ch, ops_k, burst)
                cases.append((21, [0 if kind == "stdin" else 1, [list(data), sr, w * ch], ops_k])); impl.append(outs)
                meta.append({"source": kind, "samples": n, "format(sr,sw,ch)": [sr, w, ch], "ops": ops_k, "stdin_burst_bytes": burst})
                if viol is None:
                    wv = chk_reads(data, w * ch, ops_k, outs, restart=(kind != "stdin"), filelike=True)
                    if wv:
                        viol = {"what": wv, **meta[-1], "impl_outputs": outs}
        # ---- live producers: a raw "file" that is a named pipe and a standard input that is a real pipe, both fed in bursts that are
        # aligned neither with samples nor with requests (each read must still return exactly min(n, remaining) whole samples)
        import threading
        import time as _time
        import auditok.io as aio_

        def feeder(open_w, payload, burst):
            def go():
                f = open_w()
                try:
                    for i in range(0, len(payload), burst):
                        f.write(payload[i:i + burst]); f.flush()
                        _time.sleep(0.002)
                finally:
                    f.close()
            t = threading.Thread(target=go, daemon=True)
            t.start()
            return t
        for it in range(6 if quick else 40):
            sr = r.choice([10, 8000]); w, ch = r.choice([(2, 1), (2, 2), (1, 3), (4, 1)])
            bps_ = w * ch
            n = r.randint(150, 600)
            data = bytes(r.getrandbits(8) for _ in range(n * bps_))
            burst = r.choice([bps_ * 40 + 1, 97, 251, bps_ * 33 - 1])
            req = r.choice([7, 50, 64, 100])
            for kind in ("raw file that is a named pipe", "standard input that is a pipe"):
                try:
                    if kind.startswith("raw"):
                        path = os.path.join(tmpd, "fifo_%d.raw" % it)
                        os.mkfifo(path)
                        th = feeder(lambda: open(path, "wb"), data, burst)
                        src = aio_.RawAudioSource(path, sr, w, ch)
                    else:
                        rfd, wfd = os.pipe()
                        th = feeder(lambda: os.fdopen(wfd, "wb"), data, burst)

                        class PipeStdin:
                            buffer = os.fdopen(rfd, "rb")
                        old_stdin = sys.stdin
                        sys.stdin = PipeStdin
                        try:
                            src = aio_.StdinAudioSource(sr, w, ch)
                        finally:
                            sys.stdin = old_stdin
                    src.open()
                    got, pos = [], 0
                    while True:
                        b = src.read(req)
                        if b is None:
                            break
                        want = min(req, n - pos) * bps_
                        if viol is None and (len(b) != want or bytes(b) != data[pos * bps_:pos * bps_ + want]):
                            viol = {"what": "%s fed in bursts of %d bytes: read(%d) at sample %d returned %d bytes (%.2f samples), expected exactly min(n, remaining) = %d samples" % (
                                kind, burst, req, pos, len(b), len(b) / bps_, want // bps_), "format(sr,sw,ch)": [sr, w, ch], "samples": n}
                        pos += len(b) // bps_
                        if len(got) > 2000:
                            break
                        got.append(1)
                    if viol is None and pos != n:
                        viol = {"what": "%s fed in bursts of %d bytes: %d samples were delivered before None, the stream has %d" % (kind, burst, pos, n), "format(sr,sw,ch)": [sr, w, ch]}
                    src.close()
                    th.join(5)
                except Exception as e:
                    viol = viol or {"what": "%s: %s: %s" % (kind, type(e).__name__, e)}
        # ---- request sizes that are integers of another type (numpy scalars): the same chunks as for int
        import numpy as _np
        for it in range(10 if quick else 60):
            sr = 100; w, ch = r.choice([(2, 1), (2, 2), (1, 3)])
            bps_ = w * ch
            n = r.randint(5, 40)
            data = bytes(r.getrandbits(8) for _ in range(n * bps_))
            sizes = [r.randint(1, 12) for _ in range(6)]
            raw_p = os.path.join(tmpd, "np.raw"); wav_p = os.path.join(tmpd, "np.wav")
            open(raw_p, "wb").write(data)
            with wave.open(wav_p, "wb") as f:
                f.setframerate(sr); f.setsampwidth(w); f.setnchannels(ch); f.writeframes(data)
            for kind, mk in (("buffer", lambda: aio_.BufferAudioSource(data, sr, w, ch)), ("raw", lambda: aio_.RawAudioSource(raw_p, sr, w, ch)), ("wav", lambda: aio_.WaveAudioSource(wav_p))):
                for ty in (_np.int64, _np.int32, _np.uint8):
                    try:
                        a, b = mk(), mk()
                        a.open(); b.open()
                        for k in sizes:
                            x, y = a.read(k), b.read(ty(k))
                            if viol is None and x != y:
                                viol = {"what": "%s source: read(%s(%d)) returned %s, read(%d) returned %s" % (kind, ty.__name__, k, "None" if y is None else "%d bytes" % len(y), k, "None" if x is None else "%d bytes" % len(x)),
                                        "format(sr,sw,ch)": [sr, w, ch], "samples": n, "sizes": sizes}
                        a.close(); b.close()
                    except Exception as e:
                        viol = viol or {"what": "%s source read with %s sizes: %s: %s" % (kind, ty.__name__, type(e).__name__, e)}
        # ---- single requests larger than any plausible internal buffer (judged by the read contract alone)
        big_n, bw, bch = (300000, 2, 3) if quick else (700000, 2, 3)
        big = bytes((i * 7 + (i >> 9)) % 251 for i in range(big_n * bw * bch))
        for kind in ("raw", "wav", "buffer"):
            path = os.path.join(tmpd, "big.%s" % kind)
            if kind == "raw":
                open(path, "wb").write(big)
            elif kind == "wav":
                with wave.open(path, "wb") as f:
                    f.setframerate(16000); f.setsampwidth(bw); f.setnchannels(bch); f.writeframes(big)
            ops = [[0], [3, [200000]], [3, [7]], [3, [big_n]], [3, [1]]]
            outs = run_filelike(kind, path, big, 16000, bw, bch, ops) if kind != "buffer" else run_buffer(big, 16000, bw, bch, ops)
            if viol is None:
                wv = chk_reads(big, bw * bch, ops, outs, filelike=(kind != "buffer"), sr=16000)
                if wv:
                    viol = {"what": wv[:300] + ("..." if len(wv) > 300 else ""), "source": kind, "samples": big_n, "format(sr,sw,ch)": [16000, bw, bch], "ops": ops}
        res.notes["large_request_samples"] = big_n
    finally:
        shutil.rmtree(tmpd, ignore_errors=True)
    outs_m = C.model_eval(cases)
    mism = [(m, i, o) for m, i, o in zip(meta, impl, outs_m) if i != o]
    vm = C.vm_crosscheck(cases, outs_m, "C11", 30)
    kinds = {}
    for m in meta:
        kinds[m["source"]] = kinds.get(m["source"], 0) + 1
    opk = {}
    for m in meta:
        for o in m["ops"]:
            opk[o[0]] = opk.get(o[0], 0) + 1
    res.coverage.update({"evaluations": len(cases), "distinct_nontrivial": len({C.dumps([c, o]) for c, o in zip(cases, outs_m) if any(x[0] == 2 for x in o)}),
                         "rule": "operation sequences (open/close/rewind/read(n|None|<0)/position get and set in samples, seconds, ms) on buffer sources: seeded random + exhaustive sequences of length <= %d over an 11-letter alphabet; open/close/read sequences on raw files, wav files and a replaced stdin built from the same audio; non-trivial = distinct sequence returning at least one data chunk" % (3 if quick else 4),
                         "samples": [{"case": meta[11], "model_outputs": outs_m[11]}, {"case": meta[-2], "model_outputs": outs_m[-2]}],
                         "vm_compute_crosschecked": vm, "correspondence_mismatches": len(mism), "tie_translation": tie["detail"][:300], "by_source_kind": kinds, "operation_histogram": opk})
    if viol:
        res.add_violation(viol["what"], viol)
    elif not tie["ok"] and not mism:
        res.tie_undischarged("translation tie broken: " + tie["detail"][:700] + " -- the operation-sequence correspondence agrees everywhere and the read-contract oracle found no failing input",
                             {"no_longer_checks": "TieBuf.v / TieFsrc.v", "tie_detail": tie["detail"]})
    elif mism or not tie["ok"]:
        what = []
        if not tie["ok"]:
            what.append("translation tie broken: " + tie["detail"][:500])
        if mism:
            what.append("model and implementation differ on %r (impl %r, model %r)" % mism[0])
        res.add_violation("; ".join(what) + "; the read-contract oracle found no failing input",
                          {"no_longer_checks": ("TieBuf.v (BufferAudioSource methods) " if not tie["ok"] else "") + ("correspondence IO/Source.v bstep/fstep (ops 20-21)" if mism else ""),
                           "tie_detail": tie["detail"], "first_mismatch": [list(mism[0])] if mism else []}, no_input=True)
    return res.finish(proof)
