"""C18: save/load round trips, load(skip, max_read) = slicing, numpy layout.
Coq theorems in IO/WavProofs.v (wav codec round trip, numpy layout, signed
decoding) and IO/SourceProofs.v (successive reads = contiguous slice) +
correspondence: the bytes auditok writes are compared with the model's
wav_encode, files are read back eagerly and lazily, numpy export is compared
element-wise with the model's to_array."""
import os
import sys
import shutil
import warnings
from pathlib import Path

from .. import common as C
from .tok import exc_code

FORMATS = [(1, 1), (2, 1), (4, 1), (1, 2), (2, 2), (2, 3), (4, 4), (1, 4)]


def run(prop, tier):
    res = C.Result(prop, tier)
    proof = C.proof_step(["Props/C18.v"])
    proof["trusted"] = [
        "model IO/Wav.v (44-byte RIFF/PCM header as Python's wave module writes it), Audio/Pcm.v (to_array), IO/Source.v + IO/Load.v (load = an optional skipping read and one data read on the source machine); core._read_offline is translated from /repo on every run and proved equal to Load.read_offline for all audio and all float durations (harness/py2coq/misc.py group load, TieLoad.v) and run against it (op 64); the codec and the numpy layout are tied by correspondence",
        "the wave module, the file system and numpy are exercised, not verified; pydub formats are out of reach in this sandbox",
        "extraction (ExtrOcamlBasic only) + OCaml driver, cross-checked by vm_compute on a sample",
    ]
    from ..py2coq import misctie
    tie = misctie.tie_group("load")
    proof["tie_obligations"] = tie["obligations"]
    if not tie["ok"]:
        proof["undischarged"] = tie["obligations"]
    au = C.import_auditok()
    from auditok import AudioRegion, load
    from auditok.io import to_file, from_file
    import numpy as np
    quick = tier == "quick"
    r = C.rng("C18")
    tmpd = os.path.join(C.TMP, "c18_%d" % os.getpid())
    os.makedirs(tmpd, exist_ok=True)
    cases, impl, meta = [], [], []
    viol = None
    evals = 0
    try:
        for it in range(120 if quick else 1500):
            w, ch = r.choice(FORMATS)
            sr = r.choice([7, 10, 441, 8000, 16000, 44100, 11025])
            n = r.choice([0, 1, 2, 5, 10, r.randint(0, 60)])
            data = bytes(r.randrange(256) for _ in range(n * w * ch))
            reg = AudioRegion(data, sr, w, ch)
            # --- wav bytes written == model's wav_encode
            for how in ("to_file", "save"):
                p = os.path.join(tmpd, "f_%d_%s.wav" % (it, how))
                if how == "to_file":
                    to_file(data, p, sr=sr, sw=w, ch=ch)
                else:
                    reg.save(p)
                raw = open(p, "rb").read()
                import wave as _wave
                with _wave.open(p, "rb") as wf:
                    indep = (wf.readframes(-1), wf.getframerate(), wf.getsampwidth(), wf.getnchannels())
                if viol is None and indep != (data, sr, w, ch):
                    viol = {"what": "wav file written with %s holds (rate, width, channels) = %r and %d data bytes; the audio was %r with %d bytes" % (how, indep[1:], len(indep[0]), (sr, w, ch), len(data)),
                            "rate": sr, "sw": w, "ch": ch, "data": list(data)}
                cases.append((62, [sr, w, ch, list(data)])); impl.append(list(raw)); meta.append({"wav_bytes_written_by": how, "rate": sr, "sw": w, "ch": ch, "samples": n})
                # --- read back eagerly and lazily
                for large in (False, True):
                    for fn in ("load", "from_file"):
                        evals += 1
                        try:
                            if fn == "load":
                                back = load(p, large_file=large)
                                got = (back.data, back.sr, back.sw, back.ch)
                            else:
                                src = from_file(p, large_file=large)
                                src.open(); d = src.read(-1) or b""; src.close()
                                got = (d, src.sr, src.sw, src.ch)
                        except Exception as e:
                            got = (b"", "raised %s: %s" % (type(e).__name__, e), None, None)
                        if viol is None and got != (data, sr, w, ch):
                            viol = {"what": "wav written with %s and read back with %s(large_file=%s) is not identical (bytes equal: %s, params %r vs %r)" % (how, fn, large, got[0] == data, got[1:], (sr, w, ch)),
                                    "rate": sr, "sw": w, "ch": ch, "data": list(data)}
            # --- a path used again: the file is overwritten (through one spelling of its name, with the time stamps of what it
            # replaces) by audio of another rate / width / channel count and length, then read through another spelling
            spell_w = [os.path.join(tmpd, "again.wav"), os.path.join(tmpd, ".", "again.wav"), os.path.join(tmpd, "sub", "..", "again.wav"), Path(tmpd) / "again.wav"][it % 4]
            spell_r = [os.path.join(tmpd, "again.wav"), Path(tmpd) / "again.wav"][(it // 4) % 2]
            os.makedirs(os.path.join(tmpd, "sub"), exist_ok=True)
            if it % 3 == 0:
                to_file(data, str(spell_w), sr=sr, sw=w, ch=ch)
            else:
                reg.save(spell_w)
            os.utime(str(spell_w), (1700000000, 1700000000))
            for large in (True, False):
                for fn in ("load", "from_file"):
                    evals += 1
                    try:
                        if fn == "load":
                            back = load(spell_r, large_file=large)
                            got = (back.data, back.sr, back.sw, back.ch)
                        else:
                            src = from_file(spell_r, large_file=large)
                            src.open(); d = src.read(-1) or b""; src.close()
                            got = (d, src.sr, src.sw, src.ch)
                    except Exception as e:
                        got = (b"", "raised %s: %s" % (type(e).__name__, e), None, None)
                    if viol is None and got != (data, sr, w, ch):
                        viol = {"what": "a wav path written again (as %r, earlier contents had other parameters) and read back with %s(%r, large_file=%s) is not what was written (bytes equal: %s, params %r, written %r)" % (
                            str(spell_w)[len(tmpd):], fn, str(spell_r)[len(tmpd):], large, got[0] == data, got[1:], (sr, w, ch)), "rate": sr, "sw": w, "ch": ch, "data": list(data)[:200]}
            # --- raw round trip
            p = os.path.join(tmpd, "f_%d.raw" % it)
            reg.save(p)
            if open(p, "rb").read() != data and viol is None:
                viol = {"what": "raw file differs from the region's bytes"}
            for large in (False, True):
                evals += 1
                try:
                    back = load(p, sr=sr, sw=w, ch=ch, large_file=large)
                    bk = (back.data, back.sr, back.sw, back.ch)
                except Exception as e:
                    bk = ("raised", type(e).__name__)
                if viol is None and bk != (data, sr, w, ch):
                    viol = {"what": "raw round trip (large_file=%s) not identical" % large, "rate": sr, "sw": w, "ch": ch, "data": list(data)}
            # --- load(skip, max_read) = slicing
            dur = n / sr
            for _ in range(4):
                s = r.choice([0, 0.0, dur, dur + 0.5, dur / 2, 0.5 / sr, 1.5 / sr, 2.5 / sr, r.uniform(0, dur * 1.2 + 0.01)])
                m = r.choice([None, 0, 0.04 / max(sr / 10, 1), 0.5 / sr, 1.5 / sr, dur, dur * 2 + 1, r.uniform(0, dur * 1.2 + 0.01)])
                for inp, kw in ((data, dict(sr=sr, sw=w, ch=ch)), (os.path.join(tmpd, "f_%d_save.wav" % it), dict(large_file=r.random() < 0.5)),
                                (p, dict(sr=sr, sw=w, ch=ch, large_file=r.random() < 0.5))):
                    evals += 1
                    rs = round(s * sr)
                    full = AudioRegion(data, sr, w, ch)
                    want = full[rs:] if m is None else full[rs:rs + round(m * sr)]
                    try:
                        got = load(inp, skip=s, max_read=m, **kw)
                        ok = (got.data, got.sr, got.sw, got.ch) == (want.data, sr, w, ch)
                        what = "load(skip=%r, max_read=%r) returned %d samples, slicing [%d:%s) gives %d" % (s, m, len(got), rs, "end" if m is None else rs + round(m * sr), len(want))
                    except Exception as e:
                        ok = False
                        what = "load(skip=%r, max_read=%r) raised %s: %s" % (s, m, type(e).__name__, e)
                    if not ok and viol is None:
                        viol = {"what": what, "samples": n, "rate": sr, "sw": w, "ch": ch, "input_kind": "bytes" if isinstance(inp, bytes) else os.path.splitext(inp)[1], "options": {k: v for k, v in kw.items()}}
                    if isinstance(inp, bytes):
                        # the same call against the model of _read_offline (op 64)
                        try:
                            gi = [0, list(load(inp, skip=s, max_read=m, **kw).data)]
                        except Exception as e:
                            gi = [1, 1 if isinstance(e, (ValueError, OverflowError)) else 0]
                        cases.append((64, [list(data), sr, w * ch, [C.fhex_me(float(s))], [] if m is None else [C.fhex_me(float(m))]])); impl.append(gi)
                        meta.append({"load": {"skip": s, "max_read": m}, "rate": sr, "sw": w, "ch": ch, "samples": n})
            # --- numpy export
            if n:
                arr = reg.numpy()
                cases.append((61, [w, ch, list(data)])); impl.append([[int(x) for x in row] for row in arr]); meta.append({"numpy_export": True, "sw": w, "ch": ch, "samples": n})
                if viol is None and arr.shape != (ch, n):
                    viol = {"what": "numpy export has shape %r, expected (channels, samples) = %r" % (arr.shape, (ch, n))}
                if viol is None and not np.array_equal(np.asarray(reg), arr):
                    viol = {"what": "np.asarray(region) differs from region.numpy()"}
                # what a caller does with an exported array (say, normalising it in place) is the caller's business: the region keeps
                # its bytes and the next export holds the sample values again
                keep = arr.copy()
                try:
                    if arr.flags.writeable:
                        arr[...] = 7
                except Exception:
                    pass
                again = reg.numpy()
                if viol is None and (bytes(reg.data) != data or not np.array_equal(again, keep) or not np.array_equal(np.asarray(reg), keep)):
                    viol = {"what": "after the array returned by numpy() was overwritten by its caller, the region's bytes or its next export changed (element [0][0] is now %r, the sample value is %r)" % (
                        again[0][0] if again.size else None, keep[0][0] if keep.size else None), "sw": w, "ch": ch, "samples": n}
        # --- beyond a mebibyte: skip / max_read over multi-channel audio, wav files whose frame size does not divide 2^20
        for (rate_, w_, ch_, secs) in ((16000, 2, 2, 25.0), (16000, 2, 3, 15.0), (8000, 1, 5, 60.0)):
            bps_ = w_ * ch_
            nsmp = int(rate_ * secs)
            big = bytes((i * 13 + (i >> 10)) % 253 for i in range(nsmp * bps_))
            reg = au.AudioRegion(big, rate_, w_, ch_)
            pw = os.path.join(tmpd, "big_%d_%d.wav" % (w_, ch_)); pr = os.path.join(tmpd, "big_%d_%d.raw" % (w_, ch_))
            reg.save(pw); reg.save(pr)
            evals += 2
            with _wave.open(pw, "rb") as f:
                on_disk = f.readframes(f.getnframes()); hdr = (f.getframerate(), f.getsampwidth(), f.getnchannels())
            if viol is None and (on_disk != big or hdr != (rate_, w_, ch_) or open(pr, "rb").read() != big):
                viol = {"what": "a %d-byte region (sw=%d, ch=%d) saved as wav holds %d bytes of audio (header %r), as raw %d bytes: not the region's bytes" % (
                    len(big), w_, ch_, len(on_disk), hdr, os.path.getsize(pr)), "bytes": len(big), "format(sr,sw,ch)": [rate_, w_, ch_]}
            for (sk, mr_) in ((secs * 0.8, 2.0), (secs * 0.5, None), (0.0, secs - 1.0)):
                for name, src, kw in (("bytes", big, dict(sr=rate_, sw=w_, ch=ch_)), ("wav eager", pw, {}), ("wav lazy", pw, dict(large_file=True)),
                                      ("raw lazy", pr, dict(sr=rate_, sw=w_, ch=ch_, large_file=True))):
                    evals += 1
                    try:
                        got = au.load(src, skip=sk, max_read=mr_, **kw).data
                    except Exception as x:
                        got = "raised %s" % type(x).__name__
                    a0 = round(sk * rate_); b0 = nsmp if mr_ is None else a0 + round(mr_ * rate_)
                    exp = big[a0 * bps_:b0 * bps_]
                    if viol is None and got != exp:
                        viol = {"what": "load(%s, skip=%r, max_read=%r) of %d samples (sw=%d, ch=%d) %s, slicing [%d:%d) gives %d samples" % (
                            name, sk, mr_, nsmp, w_, ch_, got if isinstance(got, str) else "returned %d samples%s" % (len(got) // bps_, "" if len(got) != len(exp) else " with other content"),
                            a0, b0, len(exp) // bps_), "skip": sk, "max_read": mr_, "format(sr,sw,ch)": [rate_, w_, ch_], "container": name}
            del reg
        # --- placeholders and exists_ok
        regs = list(au.split(bytes([0] * 40 + [100] * 60 + [0] * 40 + [90] * 30), min_dur=0.2, max_dur=3, max_silence=0.1, aw=0.1, sr=100, sw=1, ch=1, eth=30))
        for k, reg in enumerate(regs):
            for tmpl in ("ev_{start}_{end}_{duration}.wav", "ev_{start:.3f}-{end:.2f}__{duration:.1f}.raw", "x{duration}.wav"):
                evals += 1
                name = reg.save(os.path.join(tmpd, tmpl))
                want = os.path.join(tmpd, tmpl).format(start=reg.start, end=reg.end, duration=reg.duration)
                if viol is None and (name != want or not os.path.exists(want)):
                    viol = {"what": "placeholders filled as %r, expected %r" % (name, want)}
                # the target exists now: exists_ok=False must refuse, whether the name is given expanded or as the template, str or Path
                for pth in (want, Path(want), os.path.join(tmpd, tmpl)):     # (a Path is taken literally by save(): no placeholders there)
                    before = open(want, "rb").read()
                    other = au.AudioRegion(bytes(len(reg.data)), reg.sr, reg.sw, reg.ch, start=reg.start) if hasattr(reg, "start") else reg
                    try:
                        other.save(pth, exists_ok=False)
                        if viol is None:
                            viol = {"what": "exists_ok=False overwrote an existing file (name given as %s %r, target %r)" % (type(pth).__name__, str(pth), want)}
                    except FileExistsError:
                        pass
                    except Exception:
                        pass
                    if viol is None and open(want, "rb").read() != before:
                        viol = {"what": "exists_ok=False changed the contents of an existing file (name given as %s %r)" % (type(pth).__name__, str(pth))}
        if not regs and viol is None:
            viol = {"what": "harness: no region to test placeholders with"}
    finally:
        shutil.rmtree(tmpd, ignore_errors=True)
    outs = C.model_eval(cases)
    mism = [(m, i, o) for m, i, o in zip(meta, impl, outs) if i != o]
    small = [(c, o) for c, o in zip(cases, outs) if len(C.dumps(c[1])) < 400]
    vm = C.vm_crosscheck([c for c, _ in small], [o for _, o in small], "C18", 25)
    res.coverage.update({"evaluations": evals + len(cases), "distinct_nontrivial": len({C.dumps(c) for c, o in zip(cases, outs) if len(o) > 1}),
                         "rule": "seeded audio (widths 1/2/4, 1-4 channels, odd rates, 0..60 samples incl. empty): wav bytes written by to_file()/save() compared byte for byte with the model's wav_encode; wav and raw files read back with load()/from_file(), eager and lazy; load(skip, max_read) on bytes / wav / raw against slicing for skip and max_read on, between and beyond sample boundaries; numpy export element-wise against the model's to_array; file-name placeholders; exists_ok=False with str and Path; non-trivial = distinct non-empty model result",
                         "samples": [{"case": meta[0], "model_first_bytes": outs[0][:48]}, {"case": meta[-1], "model": outs[-1]}],
                         "vm_compute_crosschecked": vm, "correspondence_mismatches": len(mism), "tie_translation": tie["detail"][:300]})
    if viol:
        res.add_violation(viol["what"], viol)
    elif not tie["ok"] and not mism:
        res.tie_undischarged("translation tie broken: " + tie["detail"][:700] + " -- the correspondence agrees everywhere and the slicing oracle found no failing input",
                             {"no_longer_checks": "TieLoad.v tie_read_offline", "tie_detail": tie["detail"]})
    elif mism:
        m, i, o = mism[0]
        k = next((j for j, (a, b) in enumerate(zip(i, o)) if a != b), min(len(i), len(o)))
        res.add_violation("%r: implementation output differs from the model at index %d (impl %r..., model %r...); files read back identical, no failing input for the property" % (m, k, i[k:k + 6], o[k:k + 6]),
                          {"no_longer_checks": "correspondence IO/Wav.v wav_encode / Audio/Pcm.v to_array (ops 61-62)", "case": m, "impl": i[:120], "model": o[:120], "first_difference_at": k},
                          no_input=not m.get("numpy_export"))
    return res.finish(proof)
