"""C12 (exactly once, in order, all threads end), C13 (saved stream / joined
events / region files byte-exact under every interleaving and cache size),
C14 (stop at any moment -> consistent prefix, clean shutdown).

Proofs: Conc/WorkersSafety.v, WorkersProgress.v, MonitorProofs.v (Props/C12-14).
Tie (C): the REAL worker threads run in lock-step under controlled schedules
(harness/sched/lockstep.py); each recorded trace is replayed by the extracted
Coq trace monitor (every real step must be the model's step with the same
result; accepted traces end in an exec-reachable state) and the real
observables are compared with the model state.
Search: the statement itself is evaluated on the implementation's observables."""
import io
import json
import math
import multiprocessing as mp
import os
import shutil
import struct
import sys
import threading
import wave

from .. import common as C
from ..sched import lockstep as L

PROPS = {"C12": ["Props/C12.v"], "C13": ["Props/C13.v"], "C14": ["Props/C14.v"]}
RATE, SW, CH, WIN = 100, 2, 1, 10          # 10 samples (20 bytes) per analysis window of 0.1 s
BD = 0.1


# ------------------------------------------------------------------ scenarios

def R_(sc):
    return sc.get("rate", RATE)


def W_(sc):
    return sc.get("win", WIN)


def BD_(sc):
    return W_(sc) / R_(sc)


def synth(pattern, partial, win=WIN):
    out = []
    for k, on in enumerate(pattern):
        n = win if (k < len(pattern) - 1 or not partial) else partial
        for i in range(n):
            out.append((1000 if i % 2 == 0 else -1000) if on else 0)
    return struct.pack("<%dh" % len(out), *out)


def gen_scenario(r, kind, quick):
    """kind: 'natural' | 'stop'"""
    nb = r.choice([0, 0, 1, 2, 3, 4, 5, 6, 8, 12] if quick else [0, 1, 2, 3, 5, 8, 12, 20, 30])
    p_on = r.choice([0.0, 0.4, 0.6, 0.8, 1.0])
    pattern = [1 if r.random() < p_on else 0 for _ in range(nb)]
    partial = r.choice([0, 0, 3, 7]) if nb else 0
    mn = r.choice([1, 1, 2, 3]); mx = r.choice([x for x in (2, 3, 4, 6, 50) if x >= mn]); ms = r.choice([0, 1, 2])
    if ms >= mx:
        ms = mx - 1
    obs = []
    for _ in range(r.choice([0, 1, 1, 2, 2, 3])):
        obs.append(r.choice(["rec", "rec", "print", "regsave", "joiner"]))
    saver = r.random() < 0.55
    block_bytes = WIN * SW * CH
    total = block_bytes * nb
    cache_bytes = r.choice([0, 1, block_bytes - 1, block_bytes, block_bytes + block_bytes // 2, 2 * block_bytes + block_bytes // 2, 3 * block_bytes, total + 50, 10 ** 6])
    weights = {}
    roles = ["tok", "main"] + ["obs%d" % j for j in range(len(obs))] + (["sav"] if saver else [])
    style = r.choice(["uniform", "skew", "skew", "tokfirst", "toklast", "savlag"])
    for ro in roles:
        weights[ro] = 1.0 if style == "uniform" else r.choice([0.03, 0.3, 1.0, 5.0, 30.0])
    if style == "tokfirst":
        weights["tok"] = 1000.0
    if style == "toklast":
        weights["tok"] = 0.01
    if style == "savlag" and saver:
        weights["sav"] = 0.005
    return {
        "pattern": pattern, "partial": partial, "min_dur": mn * BD, "max_dur": mx * BD, "max_silence": ms * BD,
        "strict": r.random() < 0.3, "drop": r.random() < 0.4, "observers": obs, "saver": saver, "cache_bytes": cache_bytes,
        "silence": r.choice([0.0, 0.01, 0.015, 0.05, 0.1, 0.234]), "kind": kind, "stop_at": None, "weights": weights,
        "template": r.choice(["det_{id}_{start:.3f}_{end:.3f}_{duration:.3f}.wav", "det_{id}_{start}_{end}_{duration}.wav", "{duration}s_from_{start}_no{id}.wav"]),
        "user_stop": None,
        "timeout_w": r.choice([0.02, 0.2, 1.0]), "seed": r.randrange(1 << 30), "style": style,
    }


# ------------------------------------------------------------------ running the real threads

class Captured:
    def __init__(self):
        self.lines = []


def run_real(sc, workdir):
    """Runs the real workers under the scenario's schedule. Returns the observation dict."""
    import random
    import auditok
    from auditok import workers as W
    from auditok.util import AudioReader
    os.makedirs(workdir, exist_ok=True)
    data = synth(sc["pattern"], sc["partial"], W_(sc))
    RATE_, BD_s = R_(sc), BD_(sc)
    S = L.Sched(W)
    S.main_requested = False
    undo = L.install(S)
    cap = Captured()
    saved_print = W.__dict__.get("print")
    W.print = lambda *a, **k: cap.lines.append(" ".join(str(x) for x in a))
    obs_objs, obs_info = [], []
    out = {"error": None}
    try:
        reader = AudioReader(data, sampling_rate=RATE_, sample_width=SW, channels=CH, block_dur=BD_s)
        proxy = L.ProxyReader(reader, S)
        sav = None
        rd = proxy
        if sc["saver"]:
            sav = W.StreamSaverWorker(proxy, os.path.join(workdir, "stream.wav"), cache_size_sec=sc["cache_bytes"] / (RATE_ * SW * CH))
            S.add_role("sav", sav, inbox_of(sav))
            rd = sav

        class Rec(W.Worker):
            def __init__(self):
                self.got = []
                super().__init__(timeout=0.2)

            def _process_message(self, message):
                _id, region = message
                self.got.append((_id, region.meta.start, region.meta.end, bytes(region.data), region.sr, region.sw, region.ch))

        for j, kind in enumerate(sc["observers"]):
            if kind == "rec":
                o = Rec()
            elif kind == "print":
                o = W.PrintWorker("{id} {start} {end} {duration}", "%S")
            elif kind == "regsave":
                os.makedirs(os.path.join(workdir, "reg%d" % j), exist_ok=True)
                o = W.RegionSaverWorker(os.path.join(workdir, "reg%d" % j, sc.get("template", "det_{id}_{start:.3f}_{end:.3f}_{duration:.3f}.wav")), "wav")
            else:
                o = W.AudioEventsJoinerWorker(sc["silence"], os.path.join(workdir, "join%d.wav" % j), None, RATE_, SW, CH)
            S.add_role("obs%d" % j, o, inbox_of(o))
            obs_objs.append(o)
        tok = W.TokenizerWorker(rd, obs_objs, min_dur=sc["min_dur"], max_dur=sc["max_dur"], max_silence=sc["max_silence"],
                                strict_min_dur=sc["strict"], drop_trailing_silence=sc["drop"], energy_threshold=50)
        S.add_role("tok", tok, inbox_of(tok))
        S.add_role("main")
        if sav is not None:
            sav.start()
        tok.start_all()

        def main_body():
            S.bind_current("main")
            try:
                tok.stop_all()
            except BaseException:   # noqa
                import traceback
                S.crashes.append("main: " + traceback.format_exc()[-600:])
            finally:
                if S.role_of_current() == "main":
                    S.park(("exit",))
                    S.ev("main", 17, text="stop_all returned")
                S.mark_done("main")
        mt = threading.Thread(target=main_body, daemon=True)
        S.start_thread("main", mt)
        if sc.get("user_stop") is not None:
            # the owner of one observer stops it (public Worker.stop()) while the stream is still running
            S.add_role("user")

            def user_body():
                S.bind_current("user")
                try:
                    obs_objs[sc["user_stop"][0]].stop()
                except BaseException:   # noqa
                    import traceback
                    S.crashes.append("user: " + traceback.format_exc()[-600:])
                finally:
                    if S.role_of_current() == "user":
                        S.park(("exit",))
                    S.mark_done("user")
            S.start_thread("user", threading.Thread(target=user_body, daemon=True))

        rnd = random.Random(sc["seed"])
        workers_roles = [x for x in S.go if x != "main"]
        budget = (400 + 60 * (len(sc["pattern"]) + 2) * (len(sc["observers"]) + 3)) * sc.get("budget_factor", 1)
        idle_streak = 0
        while len(S.done) < len(S.go):
            el = S.eligible()
            all_w_done = all(x in S.done for x in workers_roles)
            main_first = "main" in S.pending and S.pending["main"][0] == "put" and S.pending["main"][2] == "tok"
            cand = []
            user_first = "user" in S.pending and S.pending["user"][0] == "put"
            for role, g in el:
                if role == "user" and user_first:
                    others_done = all(x in S.done for x in workers_roles if x != "user")
                    if S.steps >= sc["user_stop"][1] or others_done:
                        cand.append((role, g, 1e6))
                    continue
                if role == "main" and main_first:
                    if all_w_done:
                        cand.append((role, g, 1e6))
                    elif sc["kind"] == "stop" and sc["stop_at"] is not None and S.steps >= sc["stop_at"]:
                        cand.append((role, g, 1e6))
                    continue
                w = sc["weights"].get(role, 1.0)
                if g in ("timeout", "jtimeout"):
                    w *= sc["timeout_w"]
                cand.append((role, g, w))
            real_moves = [x for x in cand if x[1] not in ("timeout", "jtimeout")]
            if not cand or (not real_moves and idle_streak > 50):
                alive = sorted(set(S.go) - S.done)
                out["stuck"] = ("no thread can make progress: alive %r, waiting on %s" % (
                    alive, {ro: _op_text(S, S.pending.get(ro)) for ro in alive}))
                break
            idle_streak = idle_streak + 1 if not real_moves else 0
            if S.steps > budget:
                cand = real_moves or cand      # fairness: past the budget, timeouts only when nothing else can move
            if S.steps > 4 * budget:
                out["stuck"] = "threads still running after %d scheduling steps" % S.steps
                break
            tot = sum(x[2] for x in cand)
            x = rnd.random() * tot
            for role, g, w in cand:
                x -= w
                if x <= 0:
                    break
            if role == "main" and main_first:
                S.main_requested = not all_w_done
                out["stop_step"] = S.steps
            n_before = len(S.trace)
            S.turn(role, g)
            # the worker's own detections list as it stands after this turn: attached to the turn's events for the monitor,
            # and the statement's "ids ... match the worker's own detections list" is evaluated at this very moment
            own = [d.id for d in tok.detections]
            for e in S.trace[n_before:]:
                e.append(len(own))
                if e[0] == 6 and e[2] > 0 and e[2] not in own and "transient" not in out:
                    out["transient"] = ("observer %d processed detection %d while the worker's own detections list holds only ids %r "
                                        "(after scheduling step %d)" % (e[1], e[2], own, S.steps))
    except L.Stuck as e:
        out["stuck"] = str(e)
    except BaseException:   # noqa
        import traceback
        out["error"] = traceback.format_exc()[-1500:]
    finally:
        stuck = out.get("stuck") or out.get("error")
        if stuck:
            S.kill_all()
        undo()
        if saved_print is None:
            try:
                del W.print
            except AttributeError:
                pass
        else:
            W.print = saved_print
    # ---------------- observables
    out.update({"events": S.trace, "log": S.log, "anomalies": S.anomalies, "crashes": S.crashes, "steps": S.steps,
                "nreads": S.nreads, "blocks_read": S.blocks_read, "data": data, "printed": cap.lines,
                "alive": sorted(set(S.go) - S.done)})
    if stuck:
        return out
    try:
        out["detections"] = [(d.id, d.start, d.end, d.duration) for d in tok.detections]
        per = []
        for j, (kind, o) in enumerate(zip(sc["observers"], obs_objs)):
            if kind == "rec":
                per.append({"kind": kind, "got": o.got})
            elif kind == "print":
                per.append({"kind": kind, "lines": None})     # filled below: one print observer per scenario at most meaningful
            elif kind == "regsave":
                d = os.path.join(workdir, "reg%d" % j)
                files = {}
                for f in sorted(os.listdir(d)):
                    files[f] = read_wav(os.path.join(d, f))
                per.append({"kind": kind, "files": files})
            else:
                o_file = os.path.join(workdir, "join%d.wav" % j)
                per.append({"kind": kind, "file": read_wav(o_file)})
        out["observers"] = per
        if sc["saver"]:
            out["stream_file"] = read_wav(os.path.join(workdir, "stream.wav"))
        out["threads_alive"] = [t.name for t in [tok] + obs_objs + ([sav] if sav is not None else []) if t.is_alive()]
    except BaseException:   # noqa
        import traceback
        out["error"] = traceback.format_exc()[-1500:]
    return out


def _op_text(S, op):
    if op is None:
        return "running / not parked"
    if op[0] == "get":
        return "get on the inbox of %s (%s)" % (S.qowner.get(id(op[1])), "no timeout" if op[2] and op[3] is None else "with timeout")
    if op[0] == "join":
        return "join of %s" % op[1]
    if op[0] == "put":
        return "put into the inbox of %s" % op[2]
    return op[0]


def read_wav(path):
    try:
        with wave.open(path, "rb") as w:
            return {"rate": w.getframerate(), "sw": w.getsampwidth(), "ch": w.getnchannels(), "frames": w.readframes(w.getnframes())}
    except Exception as e:
        return {"error": "%s: %s" % (type(e).__name__, e)}


# ------------------------------------------------------------------ the statement, on the implementation's observables

def expected_regions(sc, data):
    """what split() returns for the audio that was read (the real split(), as the statement says)"""
    import auditok
    regs = list(auditok.split(data, sampling_rate=R_(sc), sample_width=SW, channels=CH, min_dur=sc["min_dur"], max_dur=sc["max_dur"],
                              max_silence=sc["max_silence"], strict_min_dur=sc["strict"], drop_trailing_silence=sc["drop"],
                              analysis_window=BD_(sc), energy_threshold=50))
    return [(k + 1, x.meta.start, x.meta.end, bytes(x.data), x.duration) for k, x in enumerate(regs)]


def fmt3(x):
    return "{:.3f}".format(x)


def check_statement(sc, ob):
    """returns {prop: message} for the clauses of C12/C13/C14 that fail on the real run"""
    v = {}
    if ob.get("stuck"):
        key = "C14" if sc["kind"] == "stop" and ob.get("stop_step") is not None else "C12"
        v[key] = "threads do not terminate: " + ob["stuck"]
        return v
    if ob.get("transient"):
        v["C12"] = ob["transient"]
    if ob.get("crashes"):
        v["C12"] = "a worker thread died with an exception: " + ob["crashes"][0][-300:]
        if sc["kind"] == "stop":
            v["C14"] = v["C12"]
    if ob.get("threads_alive"):
        v["C12"] = "threads still alive at the end: %r" % ob["threads_alive"]
        if sc["kind"] == "stop":
            v["C14"] = v["C12"]
    consumed = b"".join(ob["blocks_read"])
    stopped = sc["kind"] == "stop" and ob.get("stop_step") is not None
    pk = "C14" if stopped else "C12"
    if not stopped and consumed != ob["data"]:
        v.setdefault("C12", "the stream ended but only %d of %d bytes were read" % (len(consumed), len(ob["data"])))
    if not ob["data"].startswith(consumed):
        v.setdefault(pk, "blocks read are not a prefix of the source audio")
    exp = expected_regions(sc, consumed)
    dets = ob["detections"]
    if [d[0] for d in dets] != list(range(1, len(dets) + 1)):
        v.setdefault(pk, "the worker's own detections are not numbered 1,2,3...: %r" % [d[0] for d in dets])
    if [(d[0], d[1], d[2]) for d in dets] != [(e[0], e[1], e[2]) for e in exp]:
        v.setdefault(pk, "detections %r differ from split() of the %s %r" % (
            [(d[0], d[1], d[2]) for d in dets], "audio read before the stop" if stopped else "input", [(e[0], e[1], e[2]) for e in exp]))
    nprint = sum(1 for k in sc["observers"] if k == "print")
    for j, o in enumerate(ob.get("observers", [])):
        if o["kind"] == "rec":
            got = [(g[0], g[1], g[2], g[3]) for g in o["got"]]
            if sc.get("user_stop") is not None and sc["user_stop"][0] == j:
                if got != [e[:4] for e in exp][:len(got)]:
                    v.setdefault(pk, "observer %d (stopped by its owner mid-stream) processed %r, not a prefix of the detections" % (j, [(g[0], g[1], g[2]) for g in got]))
                continue
            if got != [e[:4] for e in exp]:
                v.setdefault(pk, "observer %d processed %r, expected exactly the detections %r" % (
                    j, [(g[0], g[1], g[2]) for g in got], [(e[0], e[1], e[2]) for e in exp]))
            for g in o["got"]:
                if (g[4], g[5], g[6]) != (R_(sc), SW, CH):
                    v.setdefault(pk, "observer %d got a region with parameters %r" % (j, g[4:]))
        elif o["kind"] == "regsave":
            want = {}
            for (i, st, en, d, du) in exp:
                want[sc.get("template", "det_{id}_{start:.3f}_{end:.3f}_{duration:.3f}.wav").format(id=i, start=st, end=en, duration=du)] = d
            got = {k: (x.get("frames") if "error" not in x else x["error"]) for k, x in o["files"].items()}
            if got != want:
                v.setdefault("C13", "region saver (observer %d) wrote files %r, expected %r" % (j, sorted(got), sorted(want)))
            for k, x in o["files"].items():
                if "error" not in x and (x["rate"], x["sw"], x["ch"]) != (R_(sc), SW, CH):
                    v.setdefault("C13", "region file %s has parameters %r" % (k, (x["rate"], x["sw"], x["ch"])))
        elif o["kind"] == "joiner":
            sil = b"\0" * (round(sc["silence"] * R_(sc)) * SW * CH)
            want = sil.join(e[3] for e in exp)
            f = o["file"]
            if "error" in f:
                v.setdefault("C13", "joiner file (observer %d) unreadable: %s" % (j, f["error"]))
            elif f["frames"] != want or (f["rate"], f["sw"], f["ch"]) != (R_(sc), SW, CH):
                v.setdefault("C13", "joiner file (observer %d) holds %d bytes, expected %d events joined by %d zero samples = %d bytes%s" % (
                    j, len(f["frames"]), len(exp), round(sc["silence"] * R_(sc)), len(want), "" if f["frames"] != want else " (header differs)"))
    if nprint:
        want_lines = []
        for (i, st, en, d, du) in exp:
            want_lines.append("%d %s %s %s" % (i, fmt3(st), fmt3(en), fmt3(du)))
        got = sorted(ob["printed"])
        if got != sorted(want_lines * nprint):
            v.setdefault(pk, "print observer(s) printed %r, expected %d x %r" % (ob["printed"], nprint, want_lines))
        if nprint == 1 and ob["printed"] != want_lines:
            v.setdefault(pk, "print observer printed out of order: %r" % ob["printed"])
    if sc["saver"]:
        f = ob.get("stream_file", {"error": "missing"})
        if "error" in f:
            v.setdefault("C14" if stopped else "C13", "saved stream is not a valid wav file: %s" % f["error"])
        elif f["frames"] != consumed:
            v.setdefault("C14" if stopped else "C13", "saved stream holds %d bytes, the tokenizer read %d bytes (%s)" % (
                len(f["frames"]), len(consumed), "prefix" if consumed.startswith(f["frames"]) else "content differs"))
        elif (f["rate"], f["sw"], f["ch"]) != (R_(sc), SW, CH):
            v.setdefault("C13", "saved stream has parameters %r, source has %r" % ((f["rate"], f["sw"], f["ch"]), (R_(sc), SW, CH)))
    return v


# ------------------------------------------------------------------ model side

def model_case(sc, ob, mparams):
    mn, mx, ms = mparams
    mode = (2 if sc["strict"] else 0) + (4 if sc["drop"] else 0)
    nb = len(sc["pattern"])
    bszs = [W_(sc) * SW * CH] * nb
    if sc["partial"] and nb:
        bszs[-1] = sc["partial"] * SW * CH
    ev = [e for e in ob["events"]]
    for e in ev:
        if len(e) < 2 or not isinstance(e[-1], int):
            e.append(-1)
    return (80, [mn, mx, ms, 0, 0, mode, sc["pattern"], bszs, len(sc["observers"]), 1 if sc["saver"] else 0,
                 int(math.ceil(sc["cache_bytes"])), ev])


def compare_with_model(sc, ob, res):
    """res: the monitor's answer. Returns a mismatch description or None."""
    if ob.get("stuck") or ob.get("error"):
        return "real run did not complete: %s" % (ob.get("stuck") or ob.get("error"))
    if ob["anomalies"]:
        return "operations outside the model's alphabet: %r" % ob["anomalies"][:3]
    if res[0] != 0:
        return "model rejects the configuration: %r" % (res,)
    acc, ysys, sched = res[1]
    if acc != len(ob["events"]):
        k = acc
        return "trace event %d is not a step of the model: %s (after %r)" % (k, ob["log_ev"][k] if k < len(ob["log_ev"]) else "?", ob["log_ev"][max(0, k - 3):k])
    tpc, mpc, nread, dets, obs, sav, all_w, all_e = ysys
    if not all_e:
        return "model state at the end of the trace is not terminal (tpc=%d mpc=%d)" % (tpc, mpc)
    if nread != ob["nreads"]:
        return "blocks read: model %d, real %d" % (nread, ob["nreads"])
    blocks = ob["blocks_read"]

    def tok_bytes(s, e):
        return b"".join(blocks[s:e + 1])
    real = [(d[0], round(d[1] * R_(sc) / W_(sc)), ) for d in ob["detections"]]
    if [(d[0], d[1]) for d in dets] != real:
        return "detections: model %r, real (id, start window) %r" % (dets, real)
    for j, (o, m) in enumerate(zip(ob["observers"], obs)):
        if o["kind"] == "rec":
            got = [(g[0], g[3]) for g in o["got"]]
            want = [(d[0], tok_bytes(d[1], d[2])) for d in m[0]]
            if got != want:
                return "observer %d: processed list differs from the model's (%d vs %d messages)" % (j, len(got), len(want))
    if sc["saver"]:
        if not sav:
            return "model has no saver"
        written = b"".join(blocks[i] for i in sav[0][0])
        f = ob.get("stream_file", {})
        if f.get("frames") != written or not sav[0][1]:
            return "saved stream: real file differs from the model's written blocks %r" % (sav[0][0],)
    return None


# ------------------------------------------------------------------ one job = one scenario (in a worker process)

def _job(args):
    sc, idx = args
    sys.path.insert(0, C.REPO)
    wd = os.path.join(C.TMP, "wk_%d_%d" % (os.getpid(), idx))
    import gc
    gc.disable()          # AudioDataSaverWorker.__del__ drains its inbox: keep finalizers of earlier scenarios out of the controlled threads
    try:
        ob = run_real(sc, wd)
    finally:
        gc.enable()
        gc.collect()
    try:
        viol = check_statement(sc, ob) if not ob.get("error") else {}
    except BaseException:   # noqa
        import traceback
        ob["error"] = "statement evaluation failed: " + traceback.format_exc()[-800:]
        viol = {}
    shutil.rmtree(wd, ignore_errors=True)
    # keep what the parent needs (bytes -> lengths / hex where small)
    ob["log_ev"] = [l for l in ob["log"] if "post-stop" not in l]
    return sc, ob, viol


def _cli_interrupt_job(args):
    """C14 through the command line: Ctrl-C (KeyboardInterrupt in the main loop) while standard input is still delivering audio"""
    idx, pattern, delay_ms, after, mn, mx, ms = args
    sys.path.insert(0, C.REPO)
    import io as _io
    import time as _time
    from .cli import run_cli
    import auditok
    import auditok.io as aio
    data = synth(pattern, 0)
    d = os.path.join(C.TMP, "cliint_%d_%d" % (os.getpid(), idx))
    os.makedirs(d, exist_ok=True)
    out_wav = os.path.join(d, "stream.wav")

    class Slow(_io.RawIOBase):
        def __init__(self):
            self.i = 0

        def readable(self):
            return True

        def readinto(self, b):
            _time.sleep(delay_ms / 1000.0)
            k = min(len(b), len(data) - self.i)
            b[:k] = data[self.i:self.i + k]
            self.i += k
            return k

    class FakeStdin:
        buffer = _io.BufferedReader(Slow(), buffer_size=WIN * SW * CH)
    old = sys.stdin
    sys.stdin = FakeStdin
    try:
        argv = ["-", "-r", str(RATE), "-w", str(SW), "-c", str(CH), "-a", repr(BD), "-n", repr(mn * BD), "-m", repr(mx * BD), "-s", repr(ms * BD),
                "-e", "50", "-O", out_wav, "--printf", "{id} {start} {end} {duration}"]
        ob = run_cli(argv, None, interrupt_after=after)
    finally:
        sys.stdin = old
    res = {"argv": argv, "pattern": pattern, "interrupt_after_sleeps": after, "read_delay_ms": delay_ms, "status": ob["status"], "exception": ob["exc"],
           "alive": ob["alive"], "stdout": ob["stdout"][:800]}
    what = None
    f = read_wav(out_wav) if os.path.exists(out_wav) else {"error": "not written"}
    shutil.rmtree(d, ignore_errors=True)
    if ob["exc"]:
        what = "Ctrl-C during processing: main() raised %s" % ob["exc"]
    elif ob["status"] != 0:
        what = "Ctrl-C during processing: exit status %r, expected 0" % (ob["status"],)
    elif ob["alive"]:
        what = "Ctrl-C during processing: threads still alive after main() returned: %r" % (ob["alive"],)
    elif "error" in f:
        what = "Ctrl-C during processing: the saved stream is not a valid wav file (%s)" % f["error"]
    elif not data.startswith(f["frames"]) or (f["rate"], f["sw"], f["ch"]) != (RATE, SW, CH):
        what = "Ctrl-C during processing: the saved stream (%d bytes) is not a prefix of the audio that was delivered" % len(f["frames"])
    else:
        consumed = f["frames"]
        sc = {"min_dur": mn * BD, "max_dur": mx * BD, "max_silence": ms * BD, "strict": False, "drop": False}
        exp = expected_regions(sc, consumed)
        want = ["%d %s %s %s" % (i, fmt3(st), fmt3(en), fmt3(du)) for (i, st, en, dd, du) in exp]
        got = ob["stdout"].split("\n")
        if got and got[-1] == "":
            got.pop()
        if got != want:
            what = ("Ctrl-C after %d blocks (saved stream): printed detections %r are not the detections of the audio read up to the stop %r"
                    % (len(consumed) // (WIN * SW * CH), got, want))
        res["blocks_read"] = len(consumed) // (WIN * SW * CH)
    return res, what


def _crash_stop_job(args):
    """C14 when the tokenizer thread has died (its validator raised on window k) before the stop: stop_all() still returns, every
    thread ends and the saved stream holds exactly the blocks that were read"""
    idx, nblocks, k, seed_ = args
    sys.path.insert(0, C.REPO)
    import random
    import threading
    from auditok.util import AudioReader
    from auditok import workers as W
    rr = random.Random(seed_)
    d = os.path.join(C.TMP, "crash_%d_%d" % (os.getpid(), idx))
    os.makedirs(d, exist_ok=True)
    old_hook = threading.excepthook
    threading.excepthook = lambda a: None
    try:
        data = bytes(rr.getrandbits(8) for _ in range(nblocks * WIN * SW * CH))
        pth = os.path.join(d, "s.wav")
        seen = []

        def validator(frame):
            seen.append(1)
            if len(seen) == k + 1:
                raise RuntimeError("validator failure injected by the check")
            return True
        rd = AudioReader(data, sampling_rate=RATE, sample_width=SW, channels=CH, block_dur=BD)
        sv = W.StreamSaverWorker(rd, pth, cache_size_sec=rr.choice([0, BD, 100.0]), timeout=0.05)

        class Rec(W.Worker):
            def __init__(self):
                self.got = []
                super().__init__(timeout=0.05)

            def _process_message(self, m):
                self.got.append(m[0])
        ob = Rec()
        tok = W.TokenizerWorker(sv, observers=[ob], validator=validator, min_dur=BD, max_dur=5 * BD, max_silence=0, analysis_window=BD)
        sv.start()          # the stream saver is started by its owner (as cmdline.main does), start_all() starts the observers and the tokenizer
        tok.start_all()
        tok.join(5)
        what = None
        if tok.is_alive():
            what = "harness: the tokenizer thread did not die from the injected validator failure"
        done = []
        th = threading.Thread(target=lambda: (tok.stop_all(), done.append(1)), daemon=True)
        th.start()
        th.join(8)
        if what is None and not done:
            what = "stop_all() after the tokenizer thread died (validator raised on window %d) did not return within 8 s" % k
        alive = [n for n, t in (("tokenizer", tok), ("observer", ob), ("stream saver", sv)) if t.is_alive()]
        if what is None and alive:
            what = "after stop_all() (tokenizer thread dead since its validator raised on window %d): still alive: %s" % (k, ", ".join(alive))
        if not alive:
            f = read_wav(pth) if os.path.exists(pth) else {"error": "not written"}
            want = data[:(k + 1) * WIN * SW * CH]
            if what is None and "error" in f:
                what = "after stop_all() (tokenizer thread dead): the saved stream is not a valid wav file (%s)" % f["error"]
            elif what is None and f["frames"] != want:
                what = "after stop_all() (tokenizer thread dead since window %d): the saved stream holds %d bytes, the %d blocks read make %d" % (k, len(f["frames"]), k + 1, len(want))
        else:
            for t in (ob, sv):          # do not leave threads behind in the pool worker
                try:
                    t.send(W._STOP_PROCESSING)
                except Exception:
                    pass
        return {"blocks": nblocks, "validator_raises_on_window": k}, what
    finally:
        threading.excepthook = old_hook
        shutil.rmtree(d, ignore_errors=True)


SCRIPT_OFF_END = r"""
import sys, time, warnings
warnings.simplefilter("ignore")
sys.path.insert(0, sys.argv[1])
from auditok.util import AudioReader
from auditok.workers import TokenizerWorker, Worker
out_file, nev, delay = sys.argv[2], int(sys.argv[3]), float(sys.argv[4])
W_ = 10
data = b"".join((b"\x10\x27" * W_) * 2 + (b"\0\0" * W_) * 2 for _ in range(nev))

class Slow(Worker):
    def _process_message(self, message):
        time.sleep(delay)
        with open(out_file, "a") as fp:
            fp.write("%d\n" % message[0])

reader = AudioReader(data, block_dur=0.01, sr=1000, sw=2, ch=1)
obs = [Slow(timeout=0.05) for _ in range(int(sys.argv[5]))]
tok = TokenizerWorker(reader, obs, min_dur=0.01, max_dur=1, max_silence=0, energy_threshold=50)
tok.start_all()
tok.join()            # the stream has ended; the script simply ends here, the observers still have a backlog
with open(out_file + ".n", "w") as fp:
    fp.write(str(len(tok.detections)))
"""


def _script_off_end_job(args):
    """C12 for a program that starts the workers, waits for the tokenizer only and runs off the end of its script: every observer
    still processes every detection and the threads end by themselves (the interpreter exits)"""
    idx, nev, delay, nobs = args
    import subprocess
    d = os.path.join(C.TMP, "offend_%d_%d" % (os.getpid(), idx))
    os.makedirs(d, exist_ok=True)
    try:
        out = os.path.join(d, "seen.txt")
        info = {"detections_in_stream": nev, "observer_delay_s": delay, "observers": nobs}
        try:
            cp = subprocess.run([sys.executable, "-c", SCRIPT_OFF_END, C.REPO, out, str(nev), str(delay), str(nobs)], capture_output=True, text=True, timeout=60 + nev * delay * 4)
        except subprocess.TimeoutExpired:
            return info, "a script that starts a TokenizerWorker with %d slow observer(s) on a %d-detection stream, joins the tokenizer and ends did not exit within the time limit: a worker thread never ends" % (nobs, nev)
        if cp.returncode != 0 or not os.path.exists(out + ".n"):
            return info, None        # the script itself failed (environment): not a statement about the property
        n = int(open(out + ".n").read())
        seen = [int(x) for x in open(out).read().split()] if os.path.exists(out) else []
        want = sorted(list(range(1, n + 1)) * nobs)
        if n != nev:
            return info, None
        if sorted(seen) != want:
            return info, "a script that starts a TokenizerWorker with %d slow observer(s), waits for the tokenizer only and then ends: the observers processed %d of the %d x %d detections before the interpreter exited (ids %r...)" % (
                nobs, len(seen), nobs, n, seen[:10])
        return info, None
    finally:
        shutil.rmtree(d, ignore_errors=True)


def _two_pipelines_job(args):
    """C12 with two complete pipelines (reader -> tokenizer -> observers) alive in one process: each observer receives exactly the
    detections of its own stream"""
    idx, n1, n2, seed_ = args
    sys.path.insert(0, C.REPO)
    import random
    import auditok
    from auditok.util import AudioReader
    from auditok import workers as W
    rr = random.Random(seed_)

    def audio(nb):
        pat = [1 if rr.random() < 0.55 else 0 for _ in range(nb)]
        return pat, b"".join((b"\x10\x27" if on else b"\0\0") * (WIN * CH) if SW == 2 else bytes([60 if on else 0]) * (WIN * CH * SW) for on in pat)
    kw = dict(min_dur=BD, max_dur=4 * BD, max_silence=rr.choice([0, BD]), analysis_window=BD)

    class Rec(W.Worker):
        def __init__(self):
            self.got = []
            super().__init__(timeout=0.05)

        def _process_message(self, m):
            self.got.append((m[0], m[1].meta.start, m[1].meta.end, bytes(m[1].data)))
    pipes = []
    for nb in (n1, n2):
        pat, data = audio(nb)
        want = [(k + 1, x.meta.start, x.meta.end, bytes(x.data)) for k, x in enumerate(
            auditok.split(data, sampling_rate=RATE, sample_width=SW, channels=CH, energy_threshold=30, **kw))]
        rd = AudioReader(data, sampling_rate=RATE, sample_width=SW, channels=CH, block_dur=BD)
        obs = [Rec(), Rec()]
        tok = W.TokenizerWorker(rd, observers=obs, energy_threshold=30, **kw)
        pipes.append((pat, want, obs, tok))
    for _p, _w, _o, tok in pipes:
        tok.start_all()
    what = None
    for k, (pat, want, obs, tok) in enumerate(pipes):
        tok.join(20)
        for o in obs:
            o.join(20)
        alive = [t for t in [tok] + obs if t.is_alive()]
        if alive and what is None:
            what = "two pipelines running at once: %d thread(s) of pipeline %d still alive 20 s after the stream ended" % (len(alive), k + 1)
            for t in alive:
                try:
                    t.send(W._STOP_PROCESSING)
                except Exception:
                    pass
        for j, o in enumerate(obs):
            if what is None and o.got != want:
                what = "two pipelines running at once: observer %d of pipeline %d received %d detection(s) %r..., split() of that pipeline's stream (activity %r) finds %d: %r..." % (
                    j + 1, k + 1, len(o.got), [g[:3] for g in o.got[:4]], pat, len(want), [g[:3] for g in want[:4]])
    return {"blocks": [n1, n2]}, what


def _two_savers_job(args):
    """C13 with two stream savers alive in the same process (two recordings at once): each file holds exactly its own stream"""
    idx, n1, n2, cache_sec, seed_ = args
    sys.path.insert(0, C.REPO)
    import random
    from auditok.util import AudioReader
    from auditok import workers as W
    rr = random.Random(seed_)
    d = os.path.join(C.TMP, "twosav_%d_%d" % (os.getpid(), idx))
    os.makedirs(d, exist_ok=True)
    try:
        datas = [bytes(rr.getrandbits(8) for _ in range(n * WIN * SW * CH)) for n in (n1, n2)]
        paths = [os.path.join(d, "s%d.wav" % k) for k in (1, 2)]
        savers = []
        for data, pth in zip(datas, paths):
            rd = AudioReader(data, sampling_rate=RATE, sample_width=SW, channels=CH, block_dur=BD)
            sv = W.StreamSaverWorker(rd, pth, cache_size_sec=cache_sec, timeout=0.05)
            sv.open(); sv.start()
            savers.append(sv)
        live = [True, True]
        guard = 0
        while any(live) and guard < 100000:
            guard += 1
            k = rr.randrange(2)
            if live[k] and savers[k].read() is None:
                live[k] = False
        for sv in savers:
            sv.close()
        what = None
        for k, (data, pth) in enumerate(zip(datas, paths)):
            f = read_wav(pth) if os.path.exists(pth) else {"error": "not written"}
            if "error" in f:
                what = what or "two stream savers at once: file %d is not a valid wav file (%s)" % (k + 1, f["error"])
            elif f["frames"] != data:
                what = what or ("two stream savers at once (cache %r s): file %d holds %d bytes, its stream had %d%s" % (
                    cache_sec, k + 1, len(f["frames"]), len(data), "; it contains blocks of the other stream" if any(datas[1 - k][i:i + 16] in f["frames"] for i in range(0, len(datas[1 - k]) - 16, WIN * SW * CH)) else ""))
        alive = [sv.is_alive() for sv in savers]
        if what is None and any(alive):
            what = "two stream savers at once: a writer thread is still alive after close()"
        return {"blocks": [n1, n2], "cache_sec": cache_sec}, what
    finally:
        shutil.rmtree(d, ignore_errors=True)


def inbox_of(worker):
    """the controlled queue a worker owns, whatever the attribute holding it is called (directly or one object deeper)"""
    from ..sched import lockstep as L
    d = object.__getattribute__(worker, "__dict__")
    found = [v for v in d.values() if isinstance(v, L.SchedQueue)]
    if not found:
        for v in d.values():
            dd = getattr(v, "__dict__", None)
            if isinstance(dd, dict) and type(v).__module__.startswith("auditok"):
                found.extend(x for x in dd.values() if isinstance(x, L.SchedQueue))
    if len(found) != 1:
        raise RuntimeError("worker %r owns %d queues" % (type(worker).__name__, len(found)))
    return found[0]

def slim(ob):
    out = {k: ob.get(k) for k in ("stuck", "error", "anomalies", "crashes", "steps", "nreads", "printed", "alive", "stop_step", "threads_alive", "transient")}
    out["trace"] = ob.get("log", [])[:400]
    out["events"] = ob.get("events", [])[:400]
    out["detections"] = ob.get("detections")
    out["blocks_read_bytes"] = [len(b) for b in ob.get("blocks_read", [])]
    if "stream_file" in ob:
        f = ob["stream_file"]
        out["stream_file"] = f if "error" in f else {"rate": f["rate"], "sw": f["sw"], "ch": f["ch"], "nbytes": len(f["frames"])}
    return out


def run(prop, tier):
    res = C.Result(prop, tier)
    proof = C.proof_step(PROPS[prop] + ["Conc/MonitorProofs.v"] if False else PROPS[prop])
    C.import_auditok()
    tie = None
    from ..py2coq import misctie
    ties = [misctie.tie_group("loops")] + ([misctie.tie_group("savers")] if prop == "C13" else [])
    proof["tie_obligations"] = sum((t["obligations"] for t in ties), [])
    bad_ties = [t for t in ties if not t["ok"]]
    if bad_ties:
        proof["undischarged"] = sum((t["obligations"] for t in bad_ties), [])
    tie = {"ok": not bad_ties, "detail": " | ".join(t["detail"] for t in (bad_ties or ties)), "obligations": proof["tie_obligations"]}
    quick = tier == "quick"
    r = C.rng(prop)
    scen = []
    n_nat = {"C12": 500, "C13": 500, "C14": 120}[prop] * (1 if quick else 12)
    n_stop = {"C12": 100, "C13": 150, "C14": 500}[prop] * (1 if quick else 12)
    for _ in range(n_nat):
        sc = gen_scenario(r, "natural", quick)
        if prop == "C13" and not (sc["saver"] or any(k in ("joiner", "regsave") for k in sc["observers"])):
            sc["saver"] = True
            sc["weights"]["sav"] = r.choice([0.005, 0.3, 1.0, 30.0])
        scen.append(sc)
    # ---- beyond small sizes: thousands of pending messages, thousands of timeouts, flushes of thousands of blocks, megabytes of events
    def big(pattern, mn, mx, ms, observers, saver, cache_bytes, style, timeout_w, rate=RATE, win=WIN, silence=0.05, weights=None):
        sc = gen_scenario(r, "natural", quick)
        bd = win / rate
        sc.update({"pattern": pattern, "partial": 0, "min_dur": mn * bd, "max_dur": mx * bd, "max_silence": ms * bd, "strict": False, "drop": False,
                   "observers": observers, "saver": saver, "cache_bytes": cache_bytes, "style": style, "timeout_w": timeout_w, "rate": rate, "win": win,
                   "silence": silence, "template": "det_{id}_{start:.3f}_{end:.3f}_{duration:.3f}.wav"})
        roles = ["tok", "main"] + ["obs%d" % j for j in range(len(observers))] + (["sav"] if saver else [])
        sc["weights"] = {ro: 1.0 for ro in roles}
        sc["weights"].update(weights or {})
        sc["budget_factor"] = 40
        return sc
    if prop == "C12":
        # 1300 detections piling up in the inbox of an observer that only starts consuming when the stream is over
        scen.append(big([1, 0] * 1300, 1, 5, 0, ["rec", "rec"], False, 0, "tokfirst", 0.02, weights={"tok": 1e4}))
        # an observer that times out more than three thousand times (not in a row) while detections keep arriving
        scen.append(big(([0] * 3 + [1, 1]) * 40, 1, 5, 0, ["rec"], False, 0, "toklast", 9.0))
    if prop == "C13":
        # a writer flush of exactly 4096 (and 8192) cached blocks; more than a mebibyte of joined events
        scen.append(big([1, 0, 0, 1] * 2100, 1, 5, 1, [], True, 4096 * WIN * SW * CH, "uniform", 0.02))
        scen.append(big(([1] * 30 + [0] * 10) * 14, 2, 40, 3, ["joiner", "regsave"], False, 0, "uniform", 0.05, rate=16000, win=1600, silence=0.5))
    if prop == "C12":
        for _ in range(80 if quick else 900):
            sc = gen_scenario(r, "natural", quick)
            while len(sc["observers"]) < 2:
                sc["observers"].append("rec")
            sc["observers"] = ["rec" if k in ("joiner", "regsave") else k for k in sc["observers"]]
            for j in range(len(sc["observers"])):
                sc["weights"].setdefault("obs%d" % j, 1.0)
            sc["user_stop"] = (r.randrange(len(sc["observers"])), r.randrange(0, 10 + 4 * len(sc["pattern"])))
            if sc["user_stop"][0] < len(sc["observers"]) and sc["observers"][sc["user_stop"][0]] == "print":
                sc["observers"][sc["user_stop"][0]] = "rec"
            scen.append(sc)
    for _ in range(n_stop):
        sc = gen_scenario(r, "stop", quick)
        if prop in ("C13", "C14") and r.random() < 0.6 and not sc["saver"]:
            sc["saver"] = True
            sc["weights"]["sav"] = r.choice([0.005, 0.3, 1.0, 30.0])
        scen.append(sc)
    # stop injection at EVERY scheduling point of a few base scenarios (C14), otherwise at a random step
    jobs = []
    base_for_all_points = []
    for sc in scen:
        if sc["kind"] == "stop":
            approx = 6 + (len(sc["pattern"]) + 1) * (len(sc["observers"]) + 3)
            sc["stop_at"] = r.randrange(0, approx + 4)
            if prop == "C14" and len(base_for_all_points) < (6 if quick else 40) and 2 <= len(sc["pattern"]) <= 6:
                base_for_all_points.append(sc)
    for sc in base_for_all_points:
        approx = 12 + (len(sc["pattern"]) + 1) * (len(sc["observers"]) + 4) * 2
        for k in range(approx):
            s2 = dict(sc); s2["stop_at"] = k
            scen.append(s2)
    jobs = [(sc, i) for i, sc in enumerate(scen)]
    # model parameters (window counts) from the model's own split-parameter derivation
    pcases, pkeys = [], {}
    for sc in scen:
        key = (sc["min_dur"], sc["max_dur"], sc["max_silence"], W_(sc), R_(sc))
        if key not in pkeys:
            pkeys[key] = len(pcases)
            pcases.append((42, [C.fhex_me(key[0]), C.fhex_me(key[1]), C.fhex_me(key[2]), key[3], key[4]]))
    pres = C.model_eval(pcases)
    violations, mismatches = {}, []
    samples = []
    hist = {"natural": 0, "stop": 0, "with_saver": 0, "observers": {}, "events_total": 0, "stopped_mid_stream": 0, "timeouts": 0, "styles": {}}
    distinct = set()
    results = []
    with mp.get_context("fork").Pool(C.NCPU) as pool:
        for sc, ob, viol in pool.imap_unordered(_job, jobs, chunksize=4):
            results.append((sc, ob, viol))
    cli_runs = []
    if prop == "C14":
        cj = []
        for i in range(16 if quick else 200):
            nb = r.randint(4, 30)
            pat = [1 if r.random() < 0.6 else 0 for _ in range(nb)]
            mn_ = r.choice([1, 2]); mx_ = r.choice([3, 5, 50]); ms_ = r.choice([0, 1, 2])
            if ms_ >= mx_:
                ms_ = mx_ - 1
            cj.append((i, pat, r.choice([1, 2, 4]), r.randint(1, 60), mn_, mx_, ms_))
        with mp.get_context("fork").Pool(min(C.NCPU, 8)) as pool:
            for res_c, what in pool.imap_unordered(_cli_interrupt_job, cj, chunksize=1):
                cli_runs.append(res_c)
                if what and "C14" not in violations:
                    violations["C14"] = {"what": what, "cli_run": res_c}
        kj = []
        for i in range(6 if quick else 60):
            nb = r.randint(3, 25)
            kj.append((i, nb, r.randint(0, nb - 1), r.randrange(1 << 30)))
        with mp.get_context("fork").Pool(min(C.NCPU, 8)) as pool:
            for res_k, what in pool.imap_unordered(_crash_stop_job, kj, chunksize=1):
                if what and "C14" not in violations:
                    violations["C14"] = {"what": what, "crash_then_stop_run": res_k}
        hist["stop_after_tokenizer_crash_runs"] = len(kj)
        hist["cli_interrupt_runs"] = len(cli_runs)
        hist["cli_interrupted_mid_stream"] = sum(1 for c in cli_runs if c.get("blocks_read", 10 ** 9) < len(c["pattern"]))
    if prop == "C12":
        oj = [(i, r.randint(3, 12), r.choice([0.01, 0.03, 0.05]), r.choice([1, 2])) for i in range(4 if quick else 24)]
        with mp.get_context("fork").Pool(min(C.NCPU, 4)) as pool:
            for res_o, what in pool.imap_unordered(_script_off_end_job, oj, chunksize=1):
                if what and "C12" not in violations:
                    violations["C12"] = {"what": what, "script_run": res_o}
        hist["scripts_running_off_their_end"] = len(oj)
        pj = [(i, r.randint(3, 40), r.randint(3, 40), r.randrange(1 << 30)) for i in range(8 if quick else 80)]
        with mp.get_context("fork").Pool(min(C.NCPU, 8)) as pool:
            for res_p, what in pool.imap_unordered(_two_pipelines_job, pj, chunksize=1):
                if what and "C12" not in violations:
                    violations["C12"] = {"what": what, "two_pipelines_run": res_p}
        hist["two_pipelines_runs"] = len(pj)
    if prop == "C13":
        tj = [(i, r.randint(1, 30), r.randint(1, 30), r.choice([0, BD / 2, BD, 3.3 * BD, 100.0]), r.randrange(1 << 30)) for i in range(8 if quick else 80)]
        with mp.get_context("fork").Pool(min(C.NCPU, 8)) as pool:
            for res_t, what in pool.imap_unordered(_two_savers_job, tj, chunksize=1):
                if what and "C13" not in violations:
                    violations["C13"] = {"what": what, "two_savers_run": res_t}
        hist["two_savers_runs"] = len(tj)
    mcases, midx = [], []
    for i, (sc, ob, viol) in enumerate(results):
        hist[sc["kind"]] += 1
        hist["with_saver"] += 1 if sc["saver"] else 0
        hist["styles"][sc["style"]] = hist["styles"].get(sc["style"], 0) + 1
        for k in sc["observers"]:
            hist["observers"][k] = hist["observers"].get(k, 0) + 1
        hist["events_total"] += len(ob.get("events", []))
        hist["timeouts"] += sum(1 for e in ob.get("events", []) if (e[0] == 6 and e[2] == -1) or (e[0] == 8 and e[1] == -1))
        if sc["kind"] == "stop" and ob.get("stop_step") is not None and ob.get("nreads", 0) < len(sc["pattern"]):
            hist["stopped_mid_stream"] += 1
        if ob.get("detections"):
            distinct.add(json.dumps([sc["pattern"], sc["observers"], sc["saver"], [e[:2] for e in ob["events"]]]))
        for k, msg in viol.items():
            if k not in violations:
                violations[k] = {"what": msg, "scenario": {a: b for a, b in sc.items()}, "observed": slim(ob)}
        if ob.get("error"):
            mismatches.append({"scenario": sc, "what": "harness error while driving the implementation: " + ob["error"]})
            continue
        if sc.get("user_stop") is not None:
            hist["user_stopped_observer"] = hist.get("user_stopped_observer", 0) + 1
            continue            # an action outside the model's alphabet: judged by the statement only
        mp_ = pres[pkeys[(sc["min_dur"], sc["max_dur"], sc["max_silence"], W_(sc), R_(sc))]]
        if mp_[0] != 0:
            mismatches.append({"scenario": sc, "what": "model rejects the split parameters %r" % (mp_,)})
            continue
        mcases.append(model_case(sc, ob, mp_[1][:3]))
        midx.append(i)
    mres = C.model_eval(mcases)
    accepted_events = 0
    for (op, a), mr, i in zip(mcases, mres, midx):
        sc, ob, viol = results[i]
        w = compare_with_model(sc, ob, mr)
        if mr[0] == 0:
            accepted_events += mr[1][0]
        if w:
            mismatches.append({"what": w, "scenario": sc, "observed": slim(ob)})
        if len(samples) < 2 and ob.get("detections") and len(ob.get("events", [])) < 60 and sc["observers"]:
            samples.append({"scenario": {k: sc[k] for k in ("pattern", "observers", "saver", "cache_bytes", "kind", "stop_at", "style")},
                            "trace": ob["log"][:60], "model_final_state": mr[1][1] if mr[0] == 0 else mr})
    vm_n = C.vm_crosscheck([c for c in mcases if len(c[1][11]) < 80][:12], [m for c, m in zip(mcases, mres) if len(c[1][11]) < 80][:12], prop, max_cases=8)
    proof["trusted"] = [
        "the writer's and the joiner's methods (_process_message, _write_cached_data, the drain loop of _post_process, _write_audio_event) are translated from /repo on every run and proved equal to Conc/Savers.v for all cache sizes (TieSavers.v; used by C13); "
        "interleaving model Conc/Workers.v written by hand from workers.py at queue-operation granularity (Queue assumed a linearizable FIFO, join returns iff the target exited, timeouts are stutter steps); "
        "tied by correspondence only: the real threads run in lock-step under controlled schedules and every trace is replayed by the extracted Coq monitor (Monitor.v; MonitorProofs.monitor_reachable: accepted traces end in exec-reachable states)",
        "lock-step scheduler harness/sched/lockstep.py (rebinds auditok.workers.Queue, Worker.start, Worker.join, print; the AudioReader is wrapped in a proxy whose read() is a scheduling point)",
        "not modelled: CPython queue.Queue internals, the GIL, real timeouts, OS scheduling, signal delivery; file system and wave module exercised only",
        "extraction (ExtrOcamlBasic only) + OCaml driver, cross-checked by vm_compute on a sample",
    ]
    res.notes["distribution"] = hist
    res.coverage.update({
        "evaluations": len(results), "distinct_nontrivial": len(distinct),
        "rule": "seeded controlled schedules of the real worker threads (thread weights: uniform / skewed / tokenizer-first / tokenizer-last / lagging writer; timeout weight varied), "
                "streams of 0..%d blocks incl. empty and event-free ones and a partial last block, 0-3 observers of kinds rec/print/regsave/joiner, optional stream saver with cache sizes "
                "{0,1,<block,=block,3 blocks,>stream}, natural end and stop injected at a random step (C14: additionally at EVERY scheduling step of %d base scenarios); "
                "distinct non-trivial = distinct (stream, observers, saver, sequence of (thread, operation)) with at least one detection" % (12 if quick else 30, len(base_for_all_points)),
        "samples": samples, "traces_validated_against_impl": len(mcases) - len(mismatches), "trace_events_accepted_by_monitor": accepted_events,
        "vm_compute_crosschecked": vm_n, "correspondence_mismatches": len(mismatches),
        "tie_translation": tie["detail"][:300] if tie is not None else "none for this property",
    })
    if prop in violations:
        v = violations[prop]
        res.add_violation(v["what"], v)
    elif tie is not None and not tie["ok"] and not mismatches:
        res.tie_undischarged("translation tie broken: %s -- every recorded trace was accepted by the Coq monitor and the statement held on all %d real runs" % (tie["detail"][:700], len(results)),
                             {"no_longer_checks": "TieLoops.v (worker loop, stop polling, queue / join programs)" + (" / TieSavers.v (writer and joiner methods)" if prop == "C13" else ""),
                              "tie_detail": tie["detail"]})
    elif tie is not None and not tie["ok"]:
        res.add_violation("translation tie broken: %s; correspondence with the interleaving model broken: %s -- the statement itself held on all %d real runs" % (tie["detail"][:500], mismatches[0]["what"], len(results)),
                          {"no_longer_checks": "TieLoops.v / TieSavers.v and the trace-monitor correspondence",
                           "tie_detail": tie["detail"], "first_mismatches": mismatches[:2]}, no_input=True)
    elif mismatches:
        m = mismatches[0]
        res.add_violation("correspondence with the interleaving model broken: %s -- the statement itself held on all %d real runs" % (m["what"], len(results)),
                          {"no_longer_checks": "trace-monitor correspondence (Api op 80 / Conc.Monitor.monitor) for Conc/Workers.v", "first_mismatches": mismatches[:3]}, no_input=True)
    return res.finish(proof)
