"""C15: the command line reports exactly what the API detects.

Proofs: Cli/FormatProofs.v (formatter arithmetic), Cli/OptionsProofs.v (option
flow tables)  -> Props/C15.v.
Tie (T): the option table of cmdline.py and the keyword mapping of
cmdline_util.make_kwargs are extracted from the source on every run (CliGen.v)
and checked equal to the documented tables (CliTie.v).
Tie (C): (a) make_duration_formatter against Cli/Format.v on directed and
random durations and templates; (b) end to end: auditok.cmdline.main(argv) is
run in-process on wav / raw files and on standard input over random option
vectors (short / long spellings); stdout, exit status and the files written by
-o / -O / -j are compared with the model (split_energy rendered through
format_time).
Search: the statement's clauses are evaluated on the implementation's output."""
import contextlib
import io
import multiprocessing as mp
import os
import shutil
import struct
import sys
import threading
import wave
import warnings

from .. import common as C
from ..py2coq import cli as tr
from .energy import sel_tree
from .split import synth
from .tok import exc_code

TEMPLATES = ["%S", "%I", "%h:%m:%s.%i", "%h hrs, %m min, %s sec and %i ms", "%i|%s|%m|%h", "%m:%s", "T%s.%i"]


# ------------------------------------------------------------------ tie (T): tables

def tie_tables():
    here = os.path.join(C.VERIF, "harness", "py2coq")
    srcs = [os.path.join(C.REPO, "auditok", "cmdline.py"), os.path.join(C.REPO, "auditok", "cmdline_util.py")]
    deps = srcs + [os.path.join(here, "cli.py"), os.path.join(here, "CliTie.v"), os.path.join(C.COQ, "Cli", "Options.v"), os.path.join(C.COQ, "Cli", "OptionsProofs.v")]
    sha = C.sha_files(deps)
    d = os.path.join(C.GEN, "cli_" + sha)
    res = {"sha": sha, "obligations": ["CliTie:tie_options", "CliTie:tie_kwargs", "CliTie:C15_table_short_gen", "CliTie:C15_table_long_gen"], "tables": None}
    try:
        gen, opts, rows = tr.emit(C.REPO)
        res["tables"] = (opts, rows)
    except Exception as e:      # fail closed
        res["ok"] = False
        res["detail"] = "table extraction rejects cmdline.py / cmdline_util.py: %s" % e
        return res
    with C.BuildLock():
        marker = os.path.join(d, "RESULT")
        if os.path.exists(marker):
            txt = open(marker).read()
            res["ok"] = txt.startswith("OK"); res["detail"] = txt
            return res
        os.makedirs(d, exist_ok=True)
        open(os.path.join(d, "CliGen.v"), "w").write(gen)
        shutil.copy(os.path.join(here, "CliTie.v"), d)
        for f in ("CliGen.v", "CliTie.v"):
            rc, out = C.sh(["coqc", "-Q", C.COQ, "AV", "-Q", ".", "AVGen"] + C.COQ_WARN + [f], cwd=d, timeout=600)
            if rc != 0:
                res["ok"] = False
                res["detail"] = "%s does not check: the tables extracted from cmdline.py / cmdline_util.py differ from the documented ones: %s" % (f, out[-1200:])
                open(marker, "w").write("FAIL " + res["detail"])
                return res
        res["ok"] = True
        res["detail"] = "OK option and keyword tables extracted from the source equal Cli/Options.v (sha %s)" % sha
        open(marker, "w").write(res["detail"])
        C.prune_gen(8)
    return res


# ------------------------------------------------------------------ (a) formatter

def formatter_cases(r, n):
    xs = [0.0, 0.001, 0.0005, 0.0015, 0.0025, 59.9996, 59.9995, 59.999, 3599.9995, 3599.9996, 3600.0, 86399.9999, 8.03, 8.029, 1.0005, 2.0015,
          0.07, 0.29, 1.15, 4.35, 123.589, 3723.25, 1e-9, 0.9999, 0.99949999, 100000.5, 359999.999]
    for k in (803, 29, 57, 115, 1001, 4017, 16007):
        xs.append(k * 0.01); xs.append(k / 100); xs.append(k * 10 / 1000.0)
    while len(xs) < n:
        c = r.random()
        if c < 0.3:
            xs.append(r.randrange(0, 4000000) / 1000.0)
        elif c < 0.5:
            xs.append(r.randrange(0, 400000) * 0.01)
        elif c < 0.7:
            xs.append(r.uniform(0, 7300))
        elif c < 0.85:
            xs.append(r.randrange(0, 200000) / 16000.0)
        else:
            xs.append((r.randrange(0, 100000) + 0.5) / 1000.0)
    return xs


def rand_template(r):
    parts = []
    for _ in range(r.randint(0, 6)):
        parts.append(r.choice(["%h", "%m", "%s", "%i", ":", ".", " ", "h", "s", "x", "%", "%%", "%S", "%I", "%d", "ms", "-", "%H"]))
    return "".join(parts)


def chk_format(fmt, x, got):
    """the statement's clauses on the implementation's string `got` for duration x >= 0"""
    if fmt == "%S":
        try:
            if "." not in got or len(got.split(".")[1]) != 3:
                return "%%S of %r is %r: not three decimals" % (x, got)
            if abs(float(got) - x) > 0.0005 + 1e-12 * max(1.0, x):
                return "%%S of %r is %r: off by more than half a millisecond" % (x, got)
        except ValueError:
            return "%%S of %r is %r: not a number" % (x, got)
    elif fmt == "%I":
        if got != str(int(x * 1000)):
            return "%%I of %r is %r, whole milliseconds are %d" % (x, got, int(x * 1000))
    elif fmt == "%h:%m:%s.%i":
        try:
            hms, i = got.split(".")
            h, m, s = hms.split(":")
            if len(m) != 2 or len(s) != 2 or len(i) != 3 or len(h) < 2:
                return "fields of %r not zero-padded: %r" % (x, got)
            if not (0 <= int(m) < 60 and 0 <= int(s) < 60 and 0 <= int(i) < 1000):
                return "fields of %r out of range: %r" % (x, got)
            if int(h) * 3600000 + int(m) * 60000 + int(s) * 1000 + int(i) != int(x * 1000):
                return "fields %r of %r do not recompose to the whole-millisecond value %d" % (got, x, int(x * 1000))
        except ValueError:
            return "%r is not h:m:s.i" % (got,)
    return None


# ------------------------------------------------------------------ (b) end to end

def run_cli(argv, stdin_bytes=None, interrupt_after=None):
    """auditok.cmdline.main(argv) in this process (must be called from the only thread of the process)"""
    import auditok.cmdline as cmd
    import auditok.io as aio
    import time as _time

    # the main loop of cmdline.main sleeps one second per turn: time.sleep is replaced for the main thread, in the time module
    # itself (so that `import time; time.sleep(1)` and `from time import sleep; sleep(1)` are both served)
    real_sleep = _time.sleep
    counter = {"n": 0}

    def fake_sleep(s):
        if threading.current_thread() is not threading.main_thread():
            return real_sleep(s)
        counter["n"] += 1
        if interrupt_after is not None and counter["n"] > interrupt_after:
            raise KeyboardInterrupt
        real_sleep(0.0005)
    _time.sleep = fake_sleep
    saved_names = {k: v for k, v in vars(cmd).items() if v is real_sleep}
    for k in saved_names:
        setattr(cmd, k, fake_sleep)
    out, err = io.StringIO(), io.StringIO()
    old_stdin = sys.stdin
    if stdin_bytes is not None:
        class FakeStdin:
            buffer = io.BytesIO(stdin_bytes)
        sys.stdin = FakeStdin
    status = None
    exc = None
    import signal

    class Hang(Exception):
        pass

    def on_alarm(signum, frame):
        raise Hang("cmdline.main did not return within 40 s")
    old_handler = signal.signal(signal.SIGALRM, on_alarm)
    signal.setitimer(signal.ITIMER_REAL, 40.0)
    try:
        with contextlib.redirect_stdout(out), contextlib.redirect_stderr(err), warnings.catch_warnings():
            warnings.simplefilter("ignore")
            try:
                status = cmd.main(argv)
            except SystemExit as e:
                status = e.code
            except BaseException as e:   # noqa
                exc = e
    finally:
        signal.setitimer(signal.ITIMER_REAL, 0)
        signal.signal(signal.SIGALRM, old_handler)
        _time.sleep = real_sleep
        for k, v in saved_names.items():
            setattr(cmd, k, v)
        sys.stdin = old_stdin
    # leftover threads (a failure path that did not stop them): give them a moment, report them, then stop them
    deadline = _time.time() + 1.0
    while len(threading.enumerate()) > 1 and _time.time() < deadline:
        _time.sleep(0.01)
    alive = [t.name for t in threading.enumerate() if t is not threading.current_thread()]
    for t in threading.enumerate():
        if t is not threading.current_thread() and hasattr(t, "send"):
            try:
                t.send("STOP_PROCESSING")
            except Exception:
                pass
    deadline = _time.time() + 3.0
    while len(threading.enumerate()) > 1 and _time.time() < deadline:
        _time.sleep(0.01)
    return {"status": status, "stdout": out.getvalue(), "stderr": err.getvalue()[-400:], "exc": (type(exc).__name__ + ": " + str(exc))[:300] if exc else None,
            "alive": alive}


def gen_cli_case(r, idx, quick):
    rate = r.choice([16000, 8000, 100, 10, 44100])
    w = r.choice([1, 2, 4]); ch = r.choice([1, 1, 2, 3])
    W = r.choice([1, 2, 4, 5, 8])
    nwin = r.randint(0, 30 if quick else 80)
    data, pattern, act = synth(r, rate, w, ch, W, nwin, r.random() < 0.4)
    aw = W / rate
    kind = r.choice(["wav", "wav", "raw", "stdin", "rawfmt"])
    opts = {}            # dest -> value (what the user asked for)
    if r.random() < 0.8 or aw != 0.01:
        opts["analysis_window"] = aw
    # defaults 0.2 / 5 / 0.3 are meaningful only when they are whole windows; draw explicit values mostly
    opts["min_duration"] = r.choice([aw, 2 * aw, 3 * aw])
    opts["max_duration"] = r.choice([4 * aw, 6 * aw, 10 * aw, 3 * aw])
    opts["max_silence"] = r.choice([0, aw, 2 * aw])
    if r.random() < 0.4:
        opts["drop_trailing_silence"] = True
    if r.random() < 0.4:
        opts["strict_min_duration"] = True
    eth = {1: 30, 2: 50, 4: 90}[w]
    if eth != 50 or r.random() < 0.5:
        opts["energy_threshold"] = eth
    uc = None
    if ch > 1 and r.random() < 0.7:
        uc = r.choice(["any", "mix", str(act), str(act - ch), "0"])
        opts["use_channel"] = uc
    mr = None
    if r.random() < 0.3:
        total = len(data) / (w * ch * rate)
        mr = r.choice([0.0, total / 2, 3 * aw, total + 1.0, 1.5 / rate, 2.5 / rate])
        opts["max_read"] = mr
    if kind != "wav":
        if rate != 16000 or r.random() < 0.5:
            opts["sampling_rate"] = rate
        if ch != 1 or r.random() < 0.5:
            opts["channels"] = ch
        if w != 2 or r.random() < 0.5:
            opts["sample_width"] = w
    if kind in ("wav", "raw") and r.random() < 0.4:
        opts["large_file"] = True
    tf = r.choice(TEMPLATES[:5] + ["%S", "%S"])
    pf = r.choice(["{id} {start} {end}", "{id} {start} {end} {duration}", "{duration}|{id}", "[{id}]\\t{start} -> {end}", "{end} {start}",
                   "{id}: {start} \u2192 {end} (dur\u00e9e {duration} s, \u00b5)", "\u65e5\u672c {id} {start}\\t{end} \u00df",
                   "{id} {start} {end} @{timestamp}", "{id} {start} {end} |{timestamp:>8}|", "{timestamp!s}: {id} {duration}"])
    if "{timestamp" in pf:
        opts["timestamp_format"] = "%Y"          # the one stable field of the wall clock
    if tf != "%S" or r.random() < 0.3:
        opts["time_format"] = tf
    if pf != "{id} {start} {end}" or r.random() < 0.3:
        opts["printf"] = pf
    extras = r.choice(["", "", "", "quiet", "save_regions", "save_stream", "join", "join_without_stream", "save_stream"])
    return dict(idx=idx, rate=rate, w=w, ch=ch, W=W, aw=aw, data=data, pattern=pattern, kind=kind, opts=opts, tf=tf, pf=pf, extras=extras,
                eth=eth, uc=uc, mr=mr, jsil=r.choice([0.0, 0.5 * aw, aw, 2.5 / rate, 0.1]), spell=r.randrange(1 << 30))


import time as _time_mod
YEAR = _time_mod.strftime("%Y")


def gen_default_case(r, idx):
    """relies on the documented defaults: -a 0.01 -n 0.2 -m 5 -s 0.3 -e 50 -r 16000 -c 1 -w 2 (audio built around those values)"""
    rate, w, ch, W = 16000, 2, 1, 160
    pattern = []
    for _ in range(r.randint(3, 6)):
        pattern += [1] * r.choice([18, 19, 20, 21, 25]) + [0] * r.choice([28, 29, 30, 31, 32, 35])
    if r.random() < 0.7:
        pattern += [1] * r.choice([499, 500, 501, 520]) + [0] * 31
    pattern += [1] * r.choice([5, 19, 20, 40])
    out = []
    for on in pattern:
        for i in range(W):
            out.append((3000 if i % 2 == 0 else -3000) if on else r.choice([0, 1, -1]))
    data = struct.pack("<%dh" % len(out), *out)
    kind = r.choice(["wav", "raw", "stdin", "rawfmt"])
    opts = {}
    # any one of the stated options may still be given explicitly (then with its default value, or a different one)
    full = {"analysis_window": 0.01, "min_duration": 0.2, "max_duration": 5.0, "max_silence": 0.3}
    given = dict(full)
    for k in list(full):
        if r.random() < 0.2:
            if k == "analysis_window":
                opts[k] = 0.01
            else:
                given[k] = opts[k] = r.choice({"min_duration": [0.19, 0.21, 0.2], "max_duration": [4.99, 5.01, 5.2], "max_silence": [0.29, 0.31, 0.3]}[k])
    if r.random() < 0.3:
        opts["drop_trailing_silence"] = True
    if r.random() < 0.3:
        opts["strict_min_duration"] = True
    tf = r.choice(["%S", "%S", "%I", "%h:%m:%s.%i"])
    if tf != "%S":
        opts["time_format"] = tf
    cs = dict(idx=idx, rate=rate, w=w, ch=ch, W=W, aw=0.01, data=data, pattern=pattern, kind=kind, opts=opts, tf=tf, pf="{id} {start} {end}", extras="",
              eth=50, uc=None, mr=None, jsil=0.0, spell=r.randrange(1 << 30), defaults=True)
    cs["resolved"] = given
    return cs


def build_argv(cs, flags_of, d):
    """argv for the case; every option spelled short or long at random (seeded)"""
    import random
    rs = random.Random(cs["spell"])
    argv = []

    def flag(dest):
        fl = flags_of[dest]
        return rs.choice(fl)

    def fmtv(v):
        return repr(v) if isinstance(v, float) else str(v)
    items = list(cs["opts"].items())
    rs.shuffle(items)
    for dest, v in items:
        if v is True:
            argv.append(flag(dest))
        else:
            f = flag(dest)
            if f.startswith("--") and rs.random() < 0.5:
                argv.append("%s=%s" % (f, fmtv(v)))
            else:
                argv += [f, fmtv(v)]
    files = {}
    if cs["extras"] == "quiet":
        argv.append(flag("quiet"))
    if cs["extras"] == "save_regions":
        files["regions_dir"] = os.path.join(d, "regs")
        os.makedirs(files["regions_dir"], exist_ok=True)
        argv += [flag("save_detections_as"), os.path.join(files["regions_dir"], "d_{id}_{start:.3f}_{end:.3f}_{duration:.3f}.wav")]
    if cs["extras"] in ("save_stream", "join"):
        files["stream"] = os.path.join(d, "stream.wav")
        argv += [flag("save_stream"), files["stream"]]
    if cs["extras"] in ("join", "join_without_stream"):
        argv += [flag("join_detections"), repr(cs["jsil"])]
    inp = None
    stdin_bytes = None
    if cs["kind"] == "wav":
        inp = os.path.join(d, "in.wav")
        with wave.open(inp, "wb") as f:
            f.setframerate(cs["rate"]); f.setsampwidth(cs["w"]); f.setnchannels(cs["ch"]); f.writeframes(cs["data"])
    elif cs["kind"] == "raw":
        inp = os.path.join(d, "in.raw")
        open(inp, "wb").write(cs["data"])
    elif cs["kind"] == "rawfmt":
        inp = os.path.join(d, "in.dat")
        open(inp, "wb").write(cs["data"])
        argv += [flag("input_format"), "raw"]
    else:
        inp = "-"
        stdin_bytes = cs["data"]
    pos = rs.randrange(len(argv) + 1) if all(not a.startswith("-") or a.startswith("--") or len(a) == 2 for a in argv) else len(argv)
    # the positional input is safest first or last (argparse would otherwise take an option's value)
    argv = ([inp] + argv) if rs.random() < 0.5 else (argv + [inp])
    return argv, stdin_bytes, files


def model_split_case(cs):
    o = dict(cs["opts"])
    o.update(cs.get("resolved", {}))
    mxs = None if cs["mr"] is None else round(cs["mr"] * cs["rate"])
    eth = cs["eth"]
    p, q = (int(eth * 2), 2) if eth != int(eth) else (int(eth), 1)
    uc = cs["uc"]
    if uc is not None:
        try:
            uc = int(uc)
        except ValueError:
            pass
    return (70, [list(cs["data"]), cs["rate"], cs["w"], cs["ch"], C.fhex_me(o["min_duration"]), C.fhex_me(o["max_duration"]), C.fhex_me(o["max_silence"]),
                 C.fhex_me(cs["aw"]), 1 if o.get("strict_min_duration") else 0, 1 if o.get("drop_trailing_silence") else 0, sel_tree(uc), p, q,
                 [] if mxs is None else [mxs]])


def _cli_job(cs):
    sys.path.insert(0, C.REPO)
    d = os.path.join(C.TMP, "cli_%d_%d" % (os.getpid(), cs["idx"]))
    os.makedirs(d, exist_ok=True)
    try:
        argv, stdin_bytes, files = build_argv(cs, cs["flags_of"], d)
        ob = run_cli(argv, stdin_bytes)
        ob["argv"] = argv
        if "regions_dir" in files:
            ob["region_files"] = {}
            for f in sorted(os.listdir(files["regions_dir"])):
                ob["region_files"][f] = _read_wav(os.path.join(files["regions_dir"], f))
        if "stream" in files:
            ob["stream_file"] = _read_wav(files["stream"]) if os.path.exists(files["stream"]) else {"error": "not written"}
        return cs["idx"], ob
    finally:
        shutil.rmtree(d, ignore_errors=True)


def _read_wav(path):
    try:
        with wave.open(path, "rb") as w:
            return {"rate": w.getframerate(), "sw": w.getsampwidth(), "ch": w.getnchannels(), "frames": w.readframes(w.getnframes())}
    except Exception as e:
        return {"error": "%s: %s" % (type(e).__name__, e)}


def py_fmt3(x):
    return "{:.3f}".format(x)


def run(prop, tier):
    res = C.Result(prop, tier)
    proof = C.proof_step(["Props/C15.v"])
    C.import_auditok()
    quick = tier == "quick"
    r = C.rng(prop)
    tie = tie_tables()
    from ..py2coq import misctie
    tie_f = misctie.tie_group("fmt")
    tie_g = misctie.tie_group("guards")
    tie_l = misctie.tie_group("loops")       # for the fields the print worker hands to the --printf template (tie_fields)
    # the formatter tie, the guards tie and the workers tie are reported together
    parts = (tie_f, tie_g, tie_l)
    tie_f = {"ok": all(t["ok"] for t in parts), "obligations": sum((t["obligations"] for t in parts), []),
             "detail": " | ".join(t["detail"] for t in parts if not t["ok"]) or " | ".join(t["detail"] for t in parts),
             "undischarged": sum(([] if t["ok"] else t["obligations"] for t in parts), [])}
    proof["tie_obligations"] = tie["obligations"] + tie_f["obligations"]
    proof["undischarged"] = ([] if tie["ok"] else tie["obligations"]) + tie_f["undischarged"]
    proof["trusted"] = [
        "formatter model Cli/Format.v written by hand from util.make_duration_formatter; the field arithmetic (int(seconds*1000) and the divmod chain) is translated from /repo on every run and proved equal to millis + fields (TieFmt.v); template handling and %S rendering are tied by correspondence (directed + random durations and templates); binary64 via Flocq",
        "option / keyword tables: AST extraction harness/py2coq/cli.py (fail-closed) compared with Cli/Options.v by reflexivity in CliTie.v on every run; argparse itself is trusted",
        "end-to-end runs of auditok.cmdline.main in-process (time module of cmdline replaced by a fast clock, sys.stdin replaced); {timestamp} exercised with --timestamp-format %Y only (the one stable field of the wall clock), -E/-p/-C/-I/-F/-B not exercised (no audio device / matplotlib here)",
        "extraction (ExtrOcamlBasic only) + OCaml driver, cross-checked by vm_compute on a sample",
    ]
    violation = None
    mism = []
    # ---------------- (a) formatter
    from auditok.util import make_duration_formatter
    from auditok.exceptions import TimeFormatError
    xs = formatter_cases(r, 3000 if quick else 60000)
    fcases, fimpl, fmeta = [], [], []
    for x in xs:
        for fmt in (["%S", "%I", "%h:%m:%s.%i"] if len(fcases) > 600 else TEMPLATES):
            try:
                got = [0, [ord(c) for c in make_duration_formatter(fmt)(x)]]
            except Exception as e:
                got = [1, exc_code(e)]
            fcases.append((50, [[ord(c) for c in fmt], C.fhex_me(x)])); fimpl.append(got); fmeta.append((fmt, x))
            if violation is None and got[0] == 0:
                wv = chk_format(fmt, x, "".join(map(chr, got[1])))
                if wv:
                    violation = {"what": wv, "time_format": fmt, "seconds": x}
    tcases, timpl, tmeta = [], [], []
    for _ in range(400 if quick else 5000):
        t = rand_template(r)
        if "{" in t or "}" in t:
            continue
        try:
            make_duration_formatter(t)
            got = [0, 0]
        except Exception as e:
            got = [1, exc_code(e)]
        tcases.append((51, [[ord(c) for c in t]])); timpl.append(got); tmeta.append(t)
        # the statement: unknown directives raise an error
        bad = False
        if t not in ("%S", "%I"):
            i = 0
            while i < len(t):
                if t[i] == "%":
                    if i + 1 >= len(t) or t[i + 1] not in "hmsi":
                        bad = True
                        break
                    i += 2
                else:
                    i += 1
        if violation is None and bad and got[0] == 0:
            violation = {"what": "time format %r contains an unknown directive but make_duration_formatter accepts it" % t, "time_format": t}
        if violation is None and bad and got != [1, 8]:
            violation = {"what": "time format %r with an unknown directive raises %r, not TimeFormatError" % (t, got), "time_format": t}
    fout = C.model_eval(fcases)
    tout = C.model_eval(tcases)
    for m, i, o in zip(fmeta, fimpl, fout):
        if i != o:
            mism.append({"formatter": m[0], "seconds": m[1], "impl": "".join(map(chr, i[1])) if i[0] == 0 else i, "model": "".join(map(chr, o[1])) if o[0] == 0 else o})
    for m, i, o in zip(tmeta, timpl, tout):
        if i != o:
            mism.append({"template": m, "impl": i, "model": o})
    # ---------------- (b) end to end
    flags_of = {}
    if tie["tables"]:
        for o in tie["tables"][0]:
            flags_of[o["dest"]] = o["flags"]
    else:
        # the extractor rejected the source: the end-to-end runs use the documented flags (Cli/Options.v)
        import re as _re
        flags_of = {}
        for m in _re.finditer(r'mkOpt \[([^\]]*)\] "([a-z_]+)"', open(os.path.join(C.COQ, "Cli", "Options.v")).read()):
            flags_of[m.group(2)] = [x.strip().strip('"') for x in m.group(1).split(";") if x.strip()]
    e2e = []
    n_e2e = 260 if quick else 3000
    hist = {"kinds": {}, "extras": {}, "templates": {}, "lines": 0, "status": {}}
    if flags_of is not None and all(k in flags_of for k in ("analysis_window", "min_duration", "max_duration", "max_silence", "quiet", "save_stream")):
        cases = []
        for i in range(n_e2e):
            cs = gen_cli_case(r, i, quick)
            cs["flags_of"] = flags_of
            cases.append(cs)
        for i in range(8 if quick else 60):
            cs = gen_default_case(r, n_e2e + i)
            cs["flags_of"] = flags_of
            cases.append(cs)
        # thousands of detections in one run (ids must keep counting)
        for i, ndet in enumerate([8300] if quick else [8300, 20000]):
            pat = [1, 0] * ndet
            vals = []
            for on in pat:
                vals.extend([(3000 if k % 2 == 0 else -3000) if on else 0 for k in range(10)])
            cs = dict(idx=n_e2e + 100 + i, rate=1000, w=2, ch=1, W=10, aw=0.01, data=struct.pack("<%dh" % len(vals), *vals), pattern=pat, kind="stdin",
                      opts={"analysis_window": 0.01, "min_duration": 0.01, "max_duration": 1.0, "max_silence": 0, "sampling_rate": 1000, "channels": 1, "sample_width": 2},
                      tf="%S", pf="{id} {start} {end}", extras="", eth=50, uc=None, mr=None, jsil=0.0, spell=r.randrange(1 << 30))
            cs["flags_of"] = flags_of
            cases.append(cs)
        mcases = [model_split_case(cs) for cs in cases]
        mouts = C.model_eval(mcases)
        with mp.get_context("fork").Pool(C.NCPU) as pool:
            obs = dict(pool.imap_unordered(_cli_job, cases, chunksize=2))
        # render the model's lines
        fmt_cases, fmt_keys = [], {}
        for cs, mo in zip(cases, mouts):
            if mo[0] != 0:
                continue
            for (dd, s, e, st, en, du) in mo[1]:
                for v in (st, en, du):
                    k = (cs["tf"], tuple(v))
                    if k not in fmt_keys:
                        fmt_keys[k] = len(fmt_cases)
                        fmt_cases.append((50, [[ord(c) for c in cs["tf"]], v]))
        fouts = C.model_eval(fmt_cases)

        def render(tf, v):
            o = fouts[fmt_keys[(tf, tuple(v))]]
            return "".join(map(chr, o[1])) if o[0] == 0 else "<err %r>" % (o,)
        for cs, mo in zip(cases, mouts):
            ob = obs[cs["idx"]]
            hist["kinds"][cs["kind"]] = hist["kinds"].get(cs["kind"], 0) + 1
            hist["relying_on_defaults"] = hist.get("relying_on_defaults", 0) + (1 if cs.get("defaults") else 0)
            hist["extras"][cs["extras"] or "none"] = hist["extras"].get(cs["extras"] or "none", 0) + 1
            hist["templates"][cs["tf"]] = hist["templates"].get(cs["tf"], 0) + 1
            hist["status"][str(ob["status"])] = hist["status"].get(str(ob["status"]), 0) + 1
            desc = {"argv": ob["argv"], "input": cs["kind"], "rate": cs["rate"], "sw": cs["w"], "ch": cs["ch"], "window_samples": cs["W"],
                    "activity_pattern": cs["pattern"] if len(cs["pattern"]) < 200 else "run-lengths %r" % (_rle(cs["pattern"]),), "stdout": ob["stdout"][:1500], "status": ob["status"], "stderr": ob["stderr"], "exception": ob["exc"]}
            if mo[0] != 0:
                mism.append({"what": "model rejects the parameters", "model": mo, **desc})
                continue
            pf = cs["pf"].replace("\\t", "\t")
            want_lines = []
            for k, (dd, s, e, st, en, du) in enumerate(mo[1]):
                want_lines.append(pf.format(id=k + 1, start=render(cs["tf"], st), end=render(cs["tf"], en), duration=render(cs["tf"], du), timestamp=YEAR))
            hist["lines"] += len(want_lines)
            got_lines = ob["stdout"].split("\n")
            if got_lines and got_lines[-1] == "":
                got_lines.pop()
            wrong = None
            if cs["extras"] == "join_without_stream":
                if ob["status"] != 1:
                    wrong = "-j without -O: exit status %r, expected 1" % (ob["status"],)
                elif ob["stdout"]:
                    wrong = "-j without -O printed detections"
            elif ob["exc"]:
                wrong = "main() raised %s" % ob["exc"]
            elif ob["status"] != 0:
                wrong = "exit status %r, expected 0" % (ob["status"],)
            elif ob["alive"]:
                wrong = "threads still alive after main() returned: %r" % ob["alive"]
            elif cs["extras"] == "quiet":
                if ob["stdout"]:
                    wrong = "-q printed %r" % ob["stdout"][:200]
            elif got_lines != want_lines:
                k0 = next((i for i, (a_, b_) in enumerate(zip(got_lines, want_lines)) if a_ != b_), min(len(got_lines), len(want_lines)))
                wrong = "printed lines differ from the detections of split() (%d lines printed, %d detections; first difference at line %d): got %r, expected %r" % (
                    len(got_lines), len(want_lines), k0 + 1, got_lines[k0:k0 + 4], want_lines[k0:k0 + 4])
            if wrong is None and cs["extras"] == "save_regions":
                bps = cs["w"] * cs["ch"]
                want = {}
                for k, (dd, s, e, st, en, du) in enumerate(mo[1]):
                    want["d_%d_%s_%s_%s.wav" % (k + 1, py_fmt3(C.me_float(st)), py_fmt3(C.me_float(en)), py_fmt3(C.me_float(du)))] = bytes(dd)
                got = {k: (v.get("frames") if "error" not in v else v["error"]) for k, v in ob.get("region_files", {}).items()}
                if got != want:
                    wrong = "-o wrote files %r, expected %r (or contents differ)" % (sorted(got), sorted(want))
                for k, v in ob.get("region_files", {}).items():
                    if wrong is None and "error" not in v and (v["rate"], v["sw"], v["ch"]) != (cs["rate"], cs["w"], cs["ch"]):
                        wrong = "-o file %s has parameters %r" % (k, (v["rate"], v["sw"], v["ch"]))
            if wrong is None and cs["extras"] in ("save_stream", "join"):
                bps = cs["w"] * cs["ch"]
                f = ob.get("stream_file", {"error": "missing"})
                if cs["extras"] == "save_stream":
                    mxs = None if cs["mr"] is None else max(0, round(cs["mr"] * cs["rate"]))
                    want = cs["data"] if mxs is None else cs["data"][:mxs * bps]
                else:
                    sil = b"\0" * (round(cs["jsil"] * cs["rate"]) * bps)
                    want = sil.join(bytes(x[0]) for x in mo[1])
                if "error" in f:
                    wrong = "-O file unreadable: %s" % f["error"]
                elif f["frames"] != want:
                    wrong = "-O%s file holds %d bytes, expected %d" % (" -j" if cs["extras"] == "join" else "", len(f["frames"]), len(want))
                elif (f["rate"], f["sw"], f["ch"]) != (cs["rate"], cs["w"], cs["ch"]):
                    wrong = "-O file has parameters %r, input has %r" % ((f["rate"], f["sw"], f["ch"]), (cs["rate"], cs["w"], cs["ch"]))
            if wrong:
                # model and implementation disagree; is it a violation of the statement? The expected lines ARE the statement
                # (one line per detection split() returns, rendered by the time format) once the real split() agrees with the model.
                real = _real_split_lines(cs, pf)
                if real is not None and real == want_lines:
                    if violation is None:
                        violation = {"what": wrong, **desc, "expected_lines": want_lines[:20]}
                else:
                    mism.append({"what": wrong + " (and the real split() renders %r)" % (real[:4] if real else real,), **desc})
            e2e.append(cs["idx"])
    else:
        mism.append({"what": "option table could not be extracted; end-to-end runs skipped", "detail": tie["detail"][:300]})
    vm_n = C.vm_crosscheck(fcases[:400], fout[:400], prop, 25)
    res.notes["distribution"] = hist
    res.coverage.update({
        "evaluations": len(fcases) + len(tcases) + len(e2e), "distinct_nontrivial": len({(m[0], m[1]) for m in fmeta}) + len(set(tmeta)) + hist["lines"],
        "rule": "formatter: %d durations (directed: carry cases 59.9996 / 3599.9995, products one ulp below an integer such as 8.03, half-millisecond ties; random: ms grid, 10 ms grid, uniform, sample-grid, half-ms) x time formats, "
                "%d random templates incl. malformed; end to end: %d runs of cmdline.main over wav / raw / raw-by-format / stdin inputs with random option vectors in random short/long spellings, "
                "plus -q, -o, -O, -O -j, -j alone; non-trivial = distinct (format, duration) pairs + distinct templates + printed detection lines compared" % (len(xs), len(tcases), len(e2e)),
        "samples": [{"time_format": fmeta[5][0], "seconds": fmeta[5][1], "model": "".join(map(chr, fout[5][1])) if fout[5][0] == 0 else fout[5]}] +
                   ([{"argv": obs[cases[0]["idx"]]["argv"], "stdout": obs[cases[0]["idx"]]["stdout"][:300]}] if e2e else []),
        "vm_compute_crosschecked": vm_n, "tie_tables": tie["detail"][:300], "tie_translation": tie_f["detail"][:300], "correspondence_mismatches": len(mism),
    })
    if violation:
        res.add_violation(violation["what"], violation)
    elif (not tie["ok"] or not tie_f["ok"]) and not mism and "could not be extracted" not in str(tie.get("detail", "")):
        res.tie_undischarged(("table tie broken: " + tie["detail"][:500] if not tie["ok"] else "") + (" translation tie broken: " + tie_f["detail"][:500] if not tie_f["ok"] else "")
                             + " -- the end-to-end runs and the formatter correspondence agree everywhere and the statement's clauses found no failing input",
                             {"no_longer_checks": ("CliTie.v (tie_options / tie_kwargs) " if not tie["ok"] else "") + ("TieFmt.v (tie_fields) / TieGuards.v (tie_join_guard, tie_record_flag) / TieLoops.v (tie_fields: what the print worker formats)" if not tie_f["ok"] else ""),
                              "tie_detail": [tie["detail"], tie_f["detail"]]})
    elif not tie["ok"] or not tie_f["ok"] or mism:
        what = []
        if not tie["ok"]:
            what.append("table tie broken: " + tie["detail"][:500])
        if not tie_f["ok"]:
            what.append("translation tie broken: " + tie_f["detail"][:500])
        if mism:
            what.append("correspondence model/implementation differs: %r" % (mism[0],))
        res.add_violation("; ".join(what)[:1500] + " -- the statement's clauses found no failing input",
                          {"no_longer_checks": "CliTie.v (tie_options / tie_kwargs)" if not tie["ok"] else "correspondence ops 50/51/70 (Cli/Format.v, Split/Split.v)",
                           "tie_detail": tie["detail"], "first_mismatches": mism[:3]}, no_input=True)
    return res.finish(proof)


def _rle(p):
    out = []
    for x in p:
        if out and out[-1][0] == x:
            out[-1][1] += 1
        else:
            out.append([x, 1])
    return out


def _real_split_lines(cs, pf):
    """what the statement prescribes, computed with the real split() and the real formatter"""
    try:
        import auditok
        from auditok.util import make_duration_formatter
        o = dict(cs["opts"])
        o.update(cs.get("resolved", {}))
        uc = cs["uc"]
        if uc is not None:
            try:
                uc = int(uc)
            except ValueError:
                pass
        kw = dict(min_dur=o["min_duration"], max_dur=o["max_duration"], max_silence=o["max_silence"], analysis_window=cs["aw"],
                  drop_trailing_silence=bool(o.get("drop_trailing_silence")), strict_min_dur=bool(o.get("strict_min_duration")),
                  energy_threshold=cs["eth"], use_channel=uc, sampling_rate=cs["rate"], sample_width=cs["w"], channels=cs["ch"])
        if cs["mr"] is not None:
            kw["max_read"] = cs["mr"]
        f = make_duration_formatter(cs["tf"])
        return [pf.format(id=k + 1, start=f(x.meta.start), end=f(x.meta.end), duration=f(x.duration), timestamp=YEAR) for k, x in enumerate(auditok.split(cs["data"], **kw))]
    except Exception:
        return None
