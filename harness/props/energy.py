"""C07: energy validator. Coq theorems in Audio/EnergyProofs.v (the integer
decision is exactly 10*log10(mean square) >= T, monotone in T, selector rules)
+ correspondence of the real AudioEnergyValidator with the exact integer model
on boundary-directed windows. The implementation computes in binary64 with
libm log10: cases whose exact mean square lies within relative 2^-35 of the
boundary without being a float-exact tie are counted as float_zone and not
compared."""
import struct
import warnings
from decimal import Decimal, getcontext
from fractions import Fraction

from .. import common as C
from .tok import exc_code

getcontext().prec = 60
FMT = {1: "b", 2: "h", 4: "i"}


def pack(samples, w):
    return struct.pack("<%d%s" % (len(samples), FMT[w]), *samples)


def sel_tree(uc):
    if uc in (None, "any"):
        return [0]
    if uc in ("mix", "avg", "average"):
        return [1]
    if isinstance(uc, int):
        return [2, uc]
    return [3]


def mean_square(chans, uc, ch):
    """exact mean squares (Fractions) the statement talks about, per selected channel"""
    n = len(chans[0]) if chans else 0
    if ch == 1 or uc in (None, "any"):
        return [Fraction(sum(x * x for x in c), n) for c in chans]
    if uc in ("mix", "avg", "average"):
        sums = [sum(c[i] for c in chans) for i in range(n)]
        return [Fraction(sum(x * x for x in sums), n * ch * ch)]
    i = uc + ch if uc < 0 else uc
    return [Fraction(sum(x * x for x in chans[i]), n)]


def zone(ms_list, T):
    """'tie-exact' | 'tie-inexact' | 'near' | 'far' for the decisive comparison"""
    worst = "far"
    bound = Decimal(10) ** (Decimal(T.numerator) / Decimal(T.denominator) / Decimal(10))
    for ms in ms_list:
        if ms == 0:
            continue
        ratio = Decimal(ms.numerator) / Decimal(ms.denominator) / bound
        if abs(ratio - 1) < Decimal(2) ** -35:
            # exact tie iff T/10 rational power gives exactly ms: test with integers for integer T
            tie = False
            t = 0
            if T.denominator == 1:
                t = int(T)
                tie = (ms.numerator ** 10 * 10 ** max(0, -t) == ms.denominator ** 10 * 10 ** max(0, t))
            if tie:
                # float-exact only when the mean square is an even power of ten (sqrt and log10 exact)
                k = t // 10
                exact = (t % 20 == 0) and ms == Fraction(10) ** k
                worst = "tie-exact" if exact and worst in ("far", "tie-exact") else "tie-inexact"
            else:
                return "near"
    return worst


def run(prop, tier):
    res = C.Result(prop, tier)
    proof = C.proof_step(["Props/C07.v"])
    proof["trusted"] = [
        "model Audio/Energy.v + Audio/Pcm.v written by hand from util.py (AudioEnergyValidator, make_channel_selector) and signal.py (to_array, calculate_energy); the binary64/libm log10 computation is NOT modelled: it is replaced by an exact integer decision proved equivalent to the real-number statement (Coq Reals), and compared outside a measured float zone",
        "the dispatch of make_channel_selector on `selected` (None / any, mix / avg / average, an index with its normalisation and range check, anything else) is executed symbolically from /repo's util.py on every run and proved equal to Audio/Selector.v resolve_selector for every channel count and index (harness/py2coq/selector.py, TieSelector.v); C07_decision_via_selector links it to the decision",
        "Coq standard-library real-number axioms (named under Print Assumptions) for C07_spec/C07_silence/C07_floor_irrelevant",
        "extraction (ExtrOcamlBasic only) + OCaml driver, cross-checked by vm_compute on a sample; numpy 2.x",
    ]
    from ..py2coq import misctie
    tie = misctie.tie_group("selector")
    proof["tie_obligations"] = tie["obligations"]
    if not tie["ok"]:
        proof["undischarged"] = tie["obligations"]
    C.import_auditok()
    from auditok.util import AudioEnergyValidator
    quick = tier == "quick"
    r = C.rng("C07")
    cases, impl, meta, zones = [], [], [], []
    viol = None
    selectors = [None, "any", "mix", "avg", "average", 0, 1, -1, 2, -2, 3, -3, 5, -5, "left", "MIX"]

    def add(samples_by_chan, w, T, uc):
        nonlocal viol
        ch = len(samples_by_chan)
        n = len(samples_by_chan[0])
        inter = [samples_by_chan[c][i] for i in range(n) for c in range(ch)]
        data = pack(inter, w)
        q = 1
        Tf = Fraction(T).limit_denominator(8)
        p, q = Tf.numerator, Tf.denominator
        try:
            v = AudioEnergyValidator(T, w, ch, use_channel=uc)
            got = [0, 1 if v.is_valid(data) else 0]
        except Exception as e:
            got = [1, exc_code(e)]
        cases.append((60, [w, ch, sel_tree(uc), p, q, list(data)]))
        impl.append(got)
        meta.append({"width": w, "channels": samples_by_chan if n <= 64 else "%d channel(s) x %d samples, first %r..." % (ch, n, [c[:4] for c in samples_by_chan]),
                     "threshold_dB": float(T), "use_channel": uc})
        valid_sel = ch == 1 or uc in (None, "any", "mix", "avg", "average") or (isinstance(uc, int) and -ch <= uc < ch)
        if valid_sel:
            zones.append(zone(mean_square(samples_by_chan, uc, ch), Tf))
        else:
            zones.append("far")
            if viol is None and got != [1, 1]:
                viol = {"what": "out-of-range index / unknown channel name %r with %d channels did not raise ValueError" % (uc, ch), **meta[-1]}

    lim = {1: 127, 2: 32767, 4: 2147483647}
    N = 900 if quick else 9000
    for _ in range(N):
        w = r.choice([1, 2, 4]); ch = r.choice([1, 1, 2, 3, 4]); n = r.randint(1, 24 if quick else 64)
        kind = r.random()
        hi = lim[w]
        if kind < 0.2:
            amp = r.choice([0, 1, hi, -hi - 1, 10, 100, 1000])
            chans = [[max(-hi - 1, min(hi, r.choice([amp, 0, -amp if amp != -hi - 1 else amp]))) for _ in range(n)] for _ in range(ch)]
        elif kind < 0.5:
            amp = min(hi, 10 ** r.randint(0, 9))
            chans = [[r.randint(-amp, amp) for _ in range(n)] for _ in range(ch)]
        else:
            # channels on which max-of-channels, energy-of-mean and single channels differ
            a = min(hi, r.choice([100, 1000, 20000]))
            chans = [[(a if (i + c) % 2 == 0 else -a) if c < 2 else r.randint(-3, 3) for i in range(n)] for c in range(ch)]
        T = r.choice([50, 0, 40, 60, -10, 20, 33, 49.5, 50.25, -200, -201, -199.5, 90, 186, r.randint(-210, 200)])
        add(chans, w, T, r.choice(selectors))
    # a dead (exactly silent) channel next to a loud one: the default is the MAXIMUM over channels
    for w in (1, 2, 4):
        a = {1: 100, 2: 1000, 4: 100000}[w]
        for ch in (2, 3, 4):
            for dead in range(ch):
                for n in (1, 3, 8):
                    chans = [[0] * n if c == dead else [(a if i % 2 == 0 else -a) for i in range(n)] for c in range(ch)]
                    for uc in (None, "any", dead, (dead + 1) % ch, "mix"):
                        add(chans, w, {1: 30, 2: 50, 4: 90}[w], uc)
    # full-scale samples of the same sign on every channel: the per-sample mean must not wrap in the sample's own width
    for w in (1, 2, 4):
        hi = lim[w]
        for ch in (2, 3, 4):
            for vals in ([hi] * 4, [-hi - 1] * 4, [hi, -hi - 1, hi, -hi - 1], [hi - 1, hi, hi - 2, hi], [(3 * hi) // 4] * 3, [-(3 * hi) // 4] * 3):
                chans = [list(vals) for _ in range(ch)]
                top = {1: 42, 2: 90, 4: 186}[w]
                for T in (top - 12, top - 3, 0):
                    for uc in ("mix", "avg", None, 0, -1):
                        add(chans, w, T, uc)
    # long windows (beyond any internal block size; sums of squares beyond 2^31 and 2^63 must not wrap)
    for (w, ch, n, amp, Ts) in ((2, 1, 8192, 1000, (62, 58)), (2, 1, 12288, 1000, (62, 58)), (2, 2, 4096, 1000, (62, 58)), (2, 1, 20000, 30000, (91, 88)),
                                (1, 1, 192000, 127, (43, 41, -10)), (1, 1, 262144, -128, (43, 41)), (1, 2, 140000, 127, (43, 41)),
                                (2, 1, 70000, 32767, (91, 89)), (4, 1, 9000, 2000000000, (187, 185)), (4, 3, 5000, -2147483648, (187, 185))):
        if quick and n * ch > 300000:
            continue
        chans = [[(amp if (i % 2 == 0 or amp < 0) else -amp) for i in range(n)] for _ in range(ch)]
        for T in Ts:
            for uc in ((None, "mix", 0) if ch > 1 else (None,)):
                add(chans, w, T, uc)
    # exact ties, and one LSB above / below, at even powers of ten: mean square = 10^(2j)  <=>  T = 20 j
    for j in (0, 1, 2, 3, 4):
        a = 10 ** j
        for w in (2, 4):
            if a > lim[w]:
                continue
            for n in (1, 4, 10):
                for ch in (1, 2, 3):
                    for uc in (None, 0, -1, "mix"):
                        base = [[a] * n for _ in range(ch)]
                        add(base, w, 20 * j, uc)                     # exactly on the threshold: active
                        add(base, w, 20 * j + (0.125 if j else 0.125), uc)   # threshold just above: inactive
                        if a > 1:
                            low = [[a] * (n - 1) + [a - 1] for _ in range(ch)]
                            add(low, w, 20 * j, uc)                  # one LSB below: inactive
    outs = C.model_eval(cases)
    compared = mism = 0
    zcount = {}
    first = None
    for m, i, o, z in zip(meta, impl, outs, zones):
        zcount[z] = zcount.get(z, 0) + 1
        if z in ("near", "tie-inexact"):
            continue
        compared += 1
        if i != o:
            mism += 1
            if first is None:
                first = (m, i, o, z)
    # raising the threshold can only turn active windows inactive (on the implementation)
    mono_checked = 0
    for _ in range(200 if quick else 2000):
        w = r.choice([1, 2, 4]); ch = r.choice([1, 2, 3]); n = r.randint(1, 16)
        chans = [[r.randint(-lim[w] // 3, lim[w] // 3) for _ in range(n)] for _ in range(ch)]
        inter = [chans[c][i] for i in range(n) for c in range(ch)]
        data = pack(inter, w); uc = r.choice([None, "mix", 0, -1])
        prev = True
        for T in range(-20, 200, 7):
            cur = bool(AudioEnergyValidator(T, w, ch, use_channel=uc).is_valid(data))
            mono_checked += 1
            if cur and not prev and viol is None:
                viol = {"what": "raising the threshold to %d dB turned an inactive window active" % T, "width": w, "channels": chans, "use_channel": uc}
            prev = cur
    # the decision is a function of the window's bytes alone: the same bytes held in another bytes-like object (bytearray, memoryview,
    # array.array or numpy array of the sample type), or in one buffer that a caller refills in place between calls on the same
    # validator (a readinto() loop), give the decision of a fresh validator on a fresh bytes object
    import array as _array
    import numpy as _np
    tcode = {1: "b", 2: "h", 4: "i"}
    ndt = {1: _np.int8, 2: _np.int16, 4: _np.int32}
    for _ in range(60 if quick else 600):
        w = r.choice([1, 2, 4]); ch = r.choice([1, 2, 3]); n = r.randint(2, 40)
        uc = r.choice([None, "mix", 0, -1, "any"])
        T = r.choice([50, 40, 30, 20])
        wins = []
        for k in range(r.randint(3, 9)):
            kind = r.random()
            if kind < 0.4:
                smp = [0] * (n * ch)
            elif kind < 0.7:
                a = min(lim[w], 20000 if w > 1 else 120)
                smp = [a if i % 2 else -a for i in range(n * ch)]
            else:
                # silent first half, loud second half: a decision taken on a prefix of the window is wrong
                a = min(lim[w], 3000 if w > 1 else 100)
                smp = [0] * ((n // 2) * ch) + [a if i % 2 else -a for i in range((n - n // 2) * ch)]
            wins.append(smp)
        ref_dec = [bool(AudioEnergyValidator(T, w, ch, use_channel=uc).is_valid(pack(smp, w))) for smp in wins]
        # two validators with different settings called alternately on the same window objects: a decision belongs to its validator
        va_, vb_ = AudioEnergyValidator(T, w, ch, use_channel=uc), AudioEnergyValidator(T + 45, w, ch, use_channel=("mix" if uc != "mix" else None))
        alt = []
        for smp in wins:
            raw_ = pack(smp, w)
            first_ = bool(va_.is_valid(raw_)); vb_.is_valid(raw_); again_ = bool(va_.is_valid(raw_))
            alt.append(first_ if first_ == again_ else "first %r, after the other validator %r" % (first_, again_))
            mono_checked += 1
        if viol is None and alt != ref_dec:
            viol = {"what": "a validator (threshold %d dB) called alternately with a second validator (threshold %d dB, other channel selection) on the same window objects decides %r, alone %r" % (T, T + 45, alt, ref_dec),
                    "width": w, "n_channels": ch, "use_channel": uc, "windows_interleaved_samples": wins}
        shared = {"b": AudioEnergyValidator(T, w, ch, use_channel=uc), "m": AudioEnergyValidator(T, w, ch, use_channel=uc)}
        buf = bytearray(n * ch * w)
        mv = memoryview(buf)
        for k, smp in enumerate(wins):
            raw = pack(smp, w)
            forms = [("bytearray", bytearray(raw)), ("memoryview", memoryview(raw)), ("array.array(%r)" % tcode[w], _array.array(tcode[w], smp) if _array.array(tcode[w]).itemsize == w else None),
                     ("numpy %s array" % ndt[w].__name__, _np.array(smp, dtype=ndt[w])), ("memoryview of a numpy array", memoryview(_np.array(smp, dtype=ndt[w])))]
            for nm, obj in forms:
                if obj is None:
                    continue
                try:
                    got = bool(AudioEnergyValidator(T, w, ch, use_channel=uc).is_valid(obj))
                except Exception as e:
                    got = "raised %s" % type(e).__name__
                mono_checked += 1
                if viol is None and got != ref_dec[k]:
                    viol = {"what": "the window judged %s as bytes is judged %r when the same bytes are given as %s" % ("active" if ref_dec[k] else "inactive", got, nm),
                            "width": w, "channels_interleaved_samples": smp, "n_channels": ch, "threshold_dB": T, "use_channel": uc}
            buf[:] = raw                       # refilled in place: the same object as in the previous call
            for key, nm, obj in (("b", "a bytearray refilled in place between calls on the same validator", buf), ("m", "a memoryview of a buffer refilled in place", mv)):
                got = bool(shared[key].is_valid(obj))
                mono_checked += 1
                if viol is None and got != ref_dec[k]:
                    viol = {"what": "window %d of a sequence, judged %s by a fresh validator on fresh bytes, is judged %s when passed as %s (decisions so far depend on earlier calls)" % (
                        k, "active" if ref_dec[k] else "inactive", "active" if got else "inactive", nm),
                            "width": w, "n_channels": ch, "threshold_dB": T, "use_channel": uc, "windows_interleaved_samples": wins[:k + 1], "fresh_decisions": ref_dec[:k + 1]}
    # the same decision as split() applies it: with the threshold and channel selection given to split() (long or short
    # spelling, thresholds 0 and below included), the regions are the segmentation of exactly the windows the rule declares active
    from . import split as SP
    au = C.import_auditok()
    rs = C.rng("C07-split")
    through_split = 0
    for _ in range(150 if quick else 1500):
        cs = SP.gen_case(rs, True)
        if rs.random() < 0.5 and not isinstance(cs["eth"], float):
            cs = dict(cs, eth=rs.choice([0, 0, -3, 2]), data=SP.synth(rs, cs["rate"], cs["w"], cs["ch"], cs["W"], len(cs["pattern"]), False, True)[0])
        spelled = rs.choice(["energy_threshold", "eth"])
        kw = dict(cs["params"]); kw.update({"analysis_window": cs["aw"], spelled: cs["eth"], rs.choice(["use_channel", "uc"]): cs["uc"],
                                            "sampling_rate": cs["rate"], "sample_width": cs["w"], "channels": cs["ch"]})
        try:
            got = [0, SP.enc_regions(list(au.split(cs["data"], **kw)))]
        except Exception:
            continue
        through_split += 1
        wv = SP.chk_C05_composition(au, cs, got)
        if wv and viol is None:
            viol = {"what": "decision rule as applied by split(%s=%r): %s" % (spelled, cs["eth"], wv), **SP.describe(cs), "audio_bytes": list(cs["data"])[:2000]}
    mono_checked += through_split
    vm = C.vm_crosscheck([c for c in cases if len(c[1][5]) <= 24][:200], [o for c, o in zip(cases, outs) if len(c[1][5]) <= 24][:200], "C07", 25)
    res.coverage.update({"evaluations": len(cases) + mono_checked, "distinct_nontrivial": len({C.dumps(c) for c, o in zip(cases, outs) if o == [0, 1]}),
                         "rule": "seeded windows of 1..%d samples, widths 1/2/4 with extremes, 1-4 channels, all selector spellings (valid, negative, out of range, unknown), thresholds integers -210..200 and halves/quarters; exact ties at even powers of ten with one-LSB neighbours; monotonicity sweeps; non-trivial = distinct window judged active by the model; float-zone cases (exact mean square within relative 2^-35 of the boundary without being a float-exact tie) are generated but not compared" % (24 if quick else 64),
                         "samples": [{"case": meta[5], "model": outs[5]}, {"case": meta[-1], "model": outs[-1]}],
                         "vm_compute_crosschecked": vm, "compared": compared, "correspondence_mismatches": mism, "zones": zcount,
                         "error_results": sum(1 for o in outs if o[0] == 1), "tie_translation": tie["detail"][:300]})
    if viol:
        res.add_violation(viol["what"], viol)
    elif not tie["ok"] and first is None:
        res.tie_undischarged("translation tie broken: " + tie["detail"][:700] + " -- the exact decision agrees with the validator on every compared window and the oracle found no failing input",
                             {"no_longer_checks": "TieSelector.v tie_selector", "tie_detail": tie["detail"]})
    elif first is not None:
        m, i, o, z = first
        act = "active" if o == [0, 1] else ("inactive" if o == [0, 0] else "ValueError")
        res.add_violation("window %r: exact decision is %s (zone %s) but the validator answered %r" % (m, act, z, i),
                          {"case": m, "impl": i, "exact_model": o, "zone": z})
    return res.finish(proof)
