"""Checks for the tokenizer family: C01 C02 C03 C04 C08 C20.

Tie (T): core.py's StreamTokenizer is translated to Gallina on every run and
proved equal to the hand model for all inputs (TokTie.v), then the property
theorems are restated about the generated definitions (TokGenProps.v).
Tie (C): the real StreamTokenizer and the extracted model are run on every
validity pattern up to a length bound x the whole small parameter grid, plus
random long streams, through list / generator / callback delivery.
Search: the property's own checker is applied to the IMPLEMENTATION's output."""
import itertools
import os
import shutil
import sys
import multiprocessing as mp

from .. import common as C
from ..py2coq import tok as tr

PROPS = {
    "C01": ["Props/C01.v"], "C02": ["Props/C02.v"], "C03": ["Props/C03.v"],
    "C04": ["Props/C04.v"], "C08": ["Props/C08.v"], "C20": ["Props/C20.v"],
}

MODES = [0, 2, 4, 6]


def grid(maxlen=4):
    out = []
    for mx in range(1, maxlen + 1):
        for mn in range(1, mx + 1):
            for ms in range(-1, mx):
                for imin in range(0, mx):
                    for ims in range(0, 3):
                        for mode in MODES:
                            out.append((mn, mx, ms, imin, ims, mode))
    return out


def streams_upto(n):
    out = []
    for k in range(n + 1):
        out.extend(list(p) for p in itertools.product((0, 1), repeat=k))
    return out


# ------------------------------------------------------------------ tie (T)

def tie_T():
    """returns dict(ok, sha, detail, obligations)"""
    core = os.path.join(C.REPO, "auditok", "core.py")
    here = os.path.join(C.VERIF, "harness", "py2coq")
    deps = [core, os.path.join(here, "tok.py"), os.path.join(here, "TokTie.v"), os.path.join(here, "TokGenProps.v"),
            os.path.join(C.COQ, "Tok", "Model.v")] + [os.path.join(C.COQ, p[0]) for p in PROPS.values()]
    sha = C.sha_files(deps)
    d = os.path.join(C.GEN, "tok_" + sha)
    obligations = ["TokTie:tie_reinit", "TokTie:tie_eod", "TokTie:tie_process", "TokTie:tie_post_process",
                   "TokTie:tie_iter_step", "TokTie:tie_validate", "TokTie:tie_run", "TokTie:tie_tokenize",
                   "TokGenProps:*_gen (12 restated theorems)"]
    res = {"sha": sha, "obligations": obligations, "dir": d}
    with C.BuildLock():
        marker = os.path.join(d, "RESULT")
        if os.path.exists(marker):
            txt = open(marker).read()
            res["ok"] = txt.startswith("OK")
            res["detail"] = txt
            return res
        os.makedirs(d, exist_ok=True)
        try:
            gen = tr.translate(core)
        except Exception as e:      # fail closed
            res["ok"] = False
            res["detail"] = "translator rejects auditok/core.py (construct outside the supported subset): %s" % e
            open(marker, "w").write("FAIL " + res["detail"])
            return res
        open(os.path.join(d, "TokGen.v"), "w").write(gen)
        shutil.copy(os.path.join(here, "TokTie.v"), d)
        shutil.copy(os.path.join(here, "TokGenProps.v"), d)
        for f in ("TokGen.v", "TokTie.v", "TokGenProps.v"):
            rc, out = C.sh(["coqc", "-Q", C.COQ, "AV", "-Q", ".", "AVGen"] + C.COQ_WARN + [f], cwd=d, timeout=900)
            if rc != 0:
                res["ok"] = False
                res["detail"] = "%s does not check against the model generated from core.py: %s" % (f, out[-1500:])
                open(marker, "w").write("FAIL " + res["detail"])
                return res
        res["ok"] = True
        res["detail"] = "OK TokGen = Model for all inputs (sha %s)" % sha
        open(marker, "w").write(res["detail"])
        C.prune_gen()
    return res


def tie_T2():
    """Second, tolerant translation (generic engine, helper methods inlined, semantic tie tactic): used when the
    structural translator rejects a refactored source. If it holds, the code still computes the model's functions."""
    from ..py2coq import tok2
    core = os.path.join(C.REPO, "auditok", "core.py")
    here = os.path.join(C.VERIF, "harness", "py2coq")
    deps = [core] + [os.path.join(here, f) for f in ("tok2.py", "tokroles.py", "tok_roles.json", "pure.py", "TokTie2.v", "TokTie2Aux.v", "TieTac.v")] + [os.path.join(C.COQ, "Tok", "Model.v"), os.path.join(C.COQ, "Base", "PyList.v")]
    sha = C.sha_files(deps)
    d = os.path.join(C.GEN, "tok2_" + sha)
    res = {"sha": sha, "obligations": ["TokTie2:tie2_reinit", "TokTie2:tie2_eod", "TokTie2:tie2_process", "TokTie2:tie2_post_process",
                                       "TokTie2:tie2_iter_step", "TokTie2:tie2_run", "TokTie2:tie2_tokenize", "TokTie2:tie2_validate", "TokTie2:tie2_delivery"]}
    with C.BuildLock():
        marker = os.path.join(d, "RESULT")
        if os.path.exists(marker):
            txt = open(marker).read()
            res["ok"] = txt.startswith("OK"); res["detail"] = txt
            return res
        os.makedirs(d, exist_ok=True)
        try:
            gen = tok2.emit(core)
        except Exception as e:      # fail closed: any failure inside the translator is a rejection of the source
            res["ok"] = False
            res["detail"] = "the tolerant translator also rejects auditok/core.py: %s" % e
            open(marker, "w").write("FAIL " + res["detail"])
            return res
        open(os.path.join(d, "TokGen2.v"), "w").write(gen)
        has_aux = "(* AUX:" in gen
        if not has_aux:
            res["obligations"] = [o for o in res["obligations"] if o not in ("TokTie2:tie2_eod", "TokTie2:tie2_process", "TokTie2:tie2_post_process")]
        for f in ("TieTac.v", "TokTie2.v", "TokTie2Aux.v"):
            shutil.copy(os.path.join(here, f), d)
        for f in ("TieTac.v", "TokGen2.v", "TokTie2.v") + (("TokTie2Aux.v",) if has_aux else ()):
            rc, out = C.sh(["coqc", "-Q", C.COQ, "AV", "-Q", ".", "AVGen"] + C.COQ_WARN + [f], cwd=d, timeout=900)
            if rc != 0:
                res["ok"] = False
                res["detail"] = "%s does not check against the model generated from core.py by the tolerant translator: %s" % (f, out[-1200:])
                open(marker, "w").write("FAIL " + res["detail"])
                return res
        res["ok"] = True
        res["detail"] = "OK (tolerant translation) validate, reinit, iter_step (with process / post_process / eod inlined), run, tokenize = Model for all inputs (sha %s)" % sha
        open(marker, "w").write(res["detail"])
        C.prune_gen()
    return res


# ------------------------------------------------------------------ implementation side

class ListSource:
    def __init__(self, n):
        self.n = n
        self.i = 0
        self.reads = 0

    def read(self):
        self.reads += 1
        if self.i >= self.n:
            return None
        self.i += 1
        return self.i - 1


def impl_make(cfg, verdicts_ref):
    from auditok.core import StreamTokenizer
    mn, mx, ms, imin, ims, mode = cfg
    return StreamTokenizer(lambda f: verdicts_ref[0][f], mn, mx, ms, init_min=imin, init_max_silence=ims, mode=mode)


def StreamTokenizerProxy(cfg, vals):
    from auditok.core import StreamTokenizer
    mn, mx, ms, imin, ims, mode = cfg
    return StreamTokenizer(lambda f: vals["cur"][f], mn, mx, ms, init_min=imin, init_max_silence=ims, mode=mode)


def exc_code(e):
    import auditok.exceptions as X
    from auditok.io import AudioIOError, AudioParameterError
    table = [(X.TooSmallBlockDuration, 9), (AudioParameterError, 5), (AudioIOError, 4), (X.TimeFormatError, 8),
             (ValueError, 1), (TypeError, 2), (IndexError, 3), (RuntimeError, 6), (AttributeError, 7)]
    for t, c in table:
        if isinstance(e, t):
            return c
    return 50


def impl_tokens(tk, ref, v, mode="list"):
    ref[0] = v
    src = ListSource(len(v))
    if mode == "list":
        toks = tk.tokenize(src)
    elif mode == "gen":
        toks = list(tk.tokenize(src, generator=True))
    else:
        toks = []
        tk.tokenize(src, callback=lambda d, s, e: toks.append((d, s, e)))
    return [[s, e, list(d)] for (d, s, e) in toks], src.reads


def impl_tokens_idx(tk, ref, v, mode="gen"):
    """tokens with the number of source reads at hand-over"""
    ref[0] = v
    src = ListSource(len(v))
    out = []
    if mode == "gen":
        for (d, s, e) in tk.tokenize(src, generator=True):
            out.append([[s, e, list(d)], src.reads])
    else:
        tk.tokenize(src, callback=lambda d, s, e: out.append([[s, e, list(d)], src.reads]))
    return out, src.reads


# ------------------------------------------------------------------ property checkers (search oracles)

def chk_C01(cfg, v, toks):
    n = len(v)
    prev_e = -1
    for s, e, d in toks:
        if not (0 <= s <= e < n):
            return "token (%d,%d) outside stream of %d frames" % (s, e, n)
        if d != list(range(s, e + 1)):
            return "token (%d,%d) does not carry exactly frames %d..%d: %r" % (s, e, s, e, d)
        if s <= prev_e:
            return "token (%d,%d) overlaps or precedes the previous one ending at %d" % (s, e, prev_e)
        prev_e = e
    return None


def chk_C02(cfg, v, toks):
    mn, mx, ms, imin, ims, mode = cfg
    strict = bool(mode & 2)
    for i, (s, e, d) in enumerate(toks):
        ln = len(d)
        if ln > mx:
            return "token (%d,%d) has %d frames > max_length %d" % (s, e, ln, mx)
        if ln < mn:
            if strict:
                return "strict mode delivered token (%d,%d) of %d frames < min_length %d" % (s, e, ln, mn)
            if i == 0 or len(toks[i - 1][2]) != mx or s != toks[i - 1][1] + 1:
                return "short token (%d,%d) of %d frames is not the continuation of a token cut at max_length" % (s, e, ln)
    return None


def chk_C03(cfg, v, toks):
    mn, mx, ms, imin, ims, mode = cfg
    bound = max(0, max(ms, ims) if imin > 1 else ms)
    cov = [False] * len(v)
    for s, e, d in toks:
        for i in range(max(s, 0), min(e, len(v) - 1) + 1):
            cov[i] = True
    run = 0
    for i in range(len(v)):
        if cov[i] and not v[i]:
            run += 1
            if run > bound:
                return "run of %d > %d invalid frames inside tokens ending at frame %d" % (run, bound, i)
        else:
            run = 0
    ends = {e for _, e, _ in toks}
    for s, e, d in toks:
        if not (0 <= s <= e < len(v)):
            continue
        if not any(v[s:e + 1]):
            return "token (%d,%d) has no valid frame" % (s, e)
        if not v[s] and (s - 1) not in ends:
            return "token (%d,%d) begins with an invalid frame and is not a continuation" % (s, e)
        if (mode & 4) and len(d) < mx and not v[e]:
            return "dropping mode: token (%d,%d) not cut at max_length ends with an invalid frame" % (s, e)
    return None


def chk_C04(cfg, v, toks, seg):
    if cfg[3] > 1:
        return None
    got = [[s, e] for s, e, d in toks]
    if got != seg:
        return "tokens %r differ from the greedy segmentation %r" % (got, seg)
    return None


def latency_ok(cfg, n, t, r):
    mn, mx, ms, imin, ims, mode = cfg
    s, e, d = t
    # handed over on the frame that completes max_length / on the silent frame that exceeds the tolerance / at end of stream, the
    # latter only when neither had happened before the stream ended (at most max_silence frames after the token, token shorter than max_length)
    return (len(d) == mx and r == e + 1) or (e + 2 <= r <= e + max(0, ms) + 2 and r <= n) or (r == n + 1 and e + max(0, ms) + 1 >= n and len(d) < mx)


# ------------------------------------------------------------------ correspondence worker

def _worker(job):
    """One config, many streams: impl vs model, plus the property checkers on
    the impl output. Returns (stats, mismatches, violations)."""
    kind, cfg, streams, want = job
    sys.path.insert(0, C.REPO)
    ref = [None]
    stats = {"evals": 0, "nontrivial": set(), "tokens": 0}
    mism, viol = [], {}
    try:
        tk = impl_make(cfg, ref)
    except Exception as e:  # constructor rejects: compare with the model's verdict
        code = exc_code(e)
        if want != [1, code]:
            mism.append({"cfg": cfg, "impl": "constructor raised %s" % type(e).__name__, "model": want})
        stats["nontrivial"] = 0
        return stats, mism, viol
    if want[0] != 0:
        mism.append({"cfg": cfg, "impl": "constructor accepted", "model": want})
        stats["nontrivial"] = 0
        return stats, mism, viol
    model = want[1]
    for k, v in enumerate(streams):
        stats["evals"] += 1
        if kind == "tokens":
            got, reads = impl_tokens(tk, ref, v, "list")
            if got != model["tok"][k] and len(mism) < 5:
                mism.append({"cfg": cfg, "verdicts": v, "impl": got, "model": model["tok"][k]})
            if k % 7 == 0:
                g2, _ = impl_tokens(tk, ref, v, "gen")
                g3, _ = impl_tokens(tk, ref, v, "cb")
                if (g2 != got or g3 != got) and "C08" not in viol:
                    viol["C08"] = {"cfg": cfg, "verdicts": v, "what": "list/generator/callback delivery differ",
                                   "list": got, "generator": g2, "callback": g3}
                if got and "C08" not in viol:
                    # the three deliveries also agree when a consumer walked away from the generator after its first token
                    ref[0] = v
                    it_ = tk.tokenize(ListSource(len(v)), generator=True)
                    next(it_, None)
                    del it_
                    g4, _ = impl_tokens(tk, ref, v, "list")
                    g5, _ = impl_tokens(tk, ref, v, "cb")
                    if g4 != got or g5 != got:
                        viol["C08"] = {"cfg": cfg, "verdicts": v, "what": "after a consumer abandoned the generator of an earlier run on the same tokenizer, list / callback delivery of the same stream differ from the first list delivery",
                                       "list_before": got, "list_after": g4, "callback_after": g5}
            if reads != len(v) + 1 and "C08" not in viol:
                viol["C08"] = {"cfg": cfg, "verdicts": v, "what": "source read %d times for %d frames (end of stream must be requested exactly once)" % (reads, len(v))}
            routes = [("", got)]
            if k % 7 == 3 and v:
                # the same call made in two less direct ways; the statements hold for every token "the tokenizer delivers"
                other = streams[(k + 5) % len(streams)]
                vals = {"cur": v}
                tkp = StreamTokenizerProxy(cfg, vals)
                gen = tkp.tokenize(ListSource(len(v)), generator=True)     # requested now ...
                vals["cur"] = other
                tkp.tokenize(ListSource(len(other)))                      # ... another complete run in between ...
                vals["cur"] = v
                routes.append((" [generator requested before, and consumed after, another complete run on the same tokenizer (stream %r)]" % (other,),
                               [[s_, e_, list(d_)] for (d_, s_, e_) in gen]))   # ... consumed afterwards
                # tokens a caller holds stay what they were: later runs on the same tokenizer do not touch them
                # (shallow copies of a tokenizer are not part of any statement: what copy.copy() shares is the caller's business,
                # and a check on copies alarmed on a behaviour-preserving refactoring that keeps bound methods in a table, see DESIGN 12)
                proto = StreamTokenizerProxy(cfg, vals)
                held = proto.tokenize(ListSource(len(v)))
                vals["cur"] = other
                proto.tokenize(ListSource(len(other)))
                list(proto.tokenize(ListSource(len(other)), generator=True))
                vals["cur"] = v
                routes.append((" [tokens held by the caller, looked at again after two later runs on the same tokenizer (stream %r)]" % (other,),
                               [[s_, e_, list(d_)] for (d_, s_, e_) in held]))
                stats["evals"] += 2
                # two tokenizers of the same configuration, their generators advanced alternately: no state is shared between instances
                import itertools as _it
                va_, vb_ = {"cur": v}, {"cur": other}
                ta_, tb_ = StreamTokenizerProxy(cfg, va_), StreamTokenizerProxy(cfg, vb_)
                ga_, gb_ = ta_.tokenize(ListSource(len(v)), generator=True), tb_.tokenize(ListSource(len(other)), generator=True)
                ia_ = []
                for xa_, xb_ in _it.zip_longest(ga_, gb_):
                    if xa_ is not None:
                        ia_.append([xa_[1], xa_[2], list(xa_[0])])
                routes.append((" [two tokenizer objects of this configuration advanced alternately; the other one reads %r]" % (other,), ia_))
                stats["evals"] += 1
                # frames of other types: valid frames are (index, True) pairs, invalid ones a zoo of falsy / zero-length objects
                # (a frame is whatever the source returns; only None ends the stream)
                from auditok.core import StreamTokenizer as _ST
                zoo = ((), "", b"", [], 0, False, 0.0, bytearray(), frozenset(), (k, False))
                frames = [(i, True) if v[i] else zoo[(i + k) % len(zoo)] for i in range(len(v))]

                class ObjSource:
                    def __init__(self_):
                        self_.i = 0

                    def read(self_):
                        if self_.i >= len(frames):
                            return None
                        self_.i += 1
                        return frames[self_.i - 1]
                mn_, mx_, ms_, imin_, ims_, mode_ = cfg
                tko = _ST(lambda f: isinstance(f, tuple) and len(f) == 2 and f[1] is True, mn_, mx_, ms_, init_min=imin_, init_max_silence=ims_, mode=mode_)
                objs = tko.tokenize(ObjSource())
                as_idx = [[s_, e_, list(range(s_, e_ + 1)) if (len(d_) == e_ - s_ + 1 and 0 <= s_ <= e_ < len(frames) and all(a is b for a, b in zip(d_, frames[s_:e_ + 1]))) else ["frames differ from those at %d..%d" % (s_, e_)]]
                          for (d_, s_, e_) in objs]
                routes.append((" [frames of other types: valid = (index, True), invalid = falsy or zero-length objects %r]" % ([frames[i] for i in range(len(v)) if not v[i]][:6],), as_idx))
                stats["evals"] += 1
            for route, toks_ in routes:
                for name, fn in (("C01", chk_C01), ("C02", chk_C02), ("C03", chk_C03)):
                    if name not in viol:
                        w = fn(cfg, v, toks_)
                        if w:
                            viol[name] = {"cfg": cfg, "verdicts": v, "what": w + route, "impl_tokens": toks_}
                if "C04" not in viol:
                    w = chk_C04(cfg, v, toks_, model["seg"][k])
                    if w:
                        viol["C04"] = {"cfg": cfg, "verdicts": v, "what": w + route, "impl_tokens": toks_}
                if route and toks_ != got:
                    for name in ("C08", "C20"):
                        if name not in viol:
                            viol[name] = {"cfg": cfg, "verdicts": v, "what": "tokens differ from those of a plain run on a fresh tokenizer" + route, "impl_tokens": toks_, "plain": got}
            if got:
                stats["tokens"] += len(got)
                stats["nontrivial"].add((cfg, tuple(v)))
        elif kind == "idx":
            for md in ("gen", "cb"):
                got, reads = impl_tokens_idx(tk, ref, v, md)
                if got != model["idx"][k] and len(mism) < 5:
                    mism.append({"cfg": cfg, "verdicts": v, "mode": md, "impl": got, "model": model["idx"][k]})
                if "C08" not in viol:
                    for t, r in got:
                        if not latency_ok(cfg, len(v), t, r):
                            viol["C08"] = {"cfg": cfg, "verdicts": v, "what": "token (%d,%d) handed over after %d reads (mode %s): outside the latency bound" % (t[0], t[1], r, md), "impl": got}
                            break
            if got:
                stats["nontrivial"].add((cfg, tuple(v)))
            # prefix law on every cut point
            if "C08" not in viol:
                full, _ = impl_tokens(tk, ref, v, "list")
                for cut in range(len(v) + 1):
                    pre, _ = impl_tokens(tk, ref, v[:cut], "list")
                    stats["evals"] += 1
                    w = prefix_law(pre, full, model["idx"][k], cut)
                    if w:
                        viol["C08"] = {"cfg": cfg, "verdicts": v, "cut": cut, "what": w, "prefix_tokens": pre, "full_tokens": full}
                        break
        elif kind == "reuse":
            # v is a pair (first stream, second stream); earlier use: complete / partial / abandoned generator
            v1, v2 = v
            fresh, _ = impl_tokens(impl_make(cfg, ref), ref, v2, "list")

            def judge(got, how):
                # C01-C04 speak of every token the tokenizer delivers, whatever the object did before
                if got == fresh:
                    return
                route = " [tokenizer used before: %s, on stream %r]" % (how, v1)
                for name, fn in (("C01", chk_C01), ("C02", chk_C02), ("C03", chk_C03)):
                    if name not in viol:
                        w = fn(cfg, v2, got)
                        if w:
                            viol[name] = {"cfg": cfg, "verdicts": v2, "what": w + route, "impl_tokens": got}
                if "C04" not in viol and cfg[3] <= 1 and got != model["reuse"][k]:
                    viol["C04"] = {"cfg": cfg, "verdicts": v2, "what": "tokens %r differ from the greedy segmentation %r" % (
                        [t[:2] for t in got], [t[:2] for t in model["reuse"][k]]) + route, "impl_tokens": got}
            for how in ("complete", "partial", "abandoned", "callback", "deferred", "source error", "callback error", "closed later"):
                tk2 = impl_make(cfg, ref)
                ref[0] = v1
                if how == "closed later":
                    # an abandoned, half-consumed generator stays alive and is closed (as the garbage collector may do at any
                    # moment) while the next run is in the middle of its stream
                    vals = {"cur": v1}
                    tkc = StreamTokenizerProxy(cfg, vals)
                    src1 = ListSource(len(v1))
                    g = tkc.tokenize(src1, generator=True)
                    try:
                        while src1.i < (len(v1) + 1) // 2:
                            next(g)
                    except StopIteration:
                        pass
                    at = (k * 7 + len(v1)) % (len(v2) + 1)

                    class Closing(ListSource):
                        def read(self_):
                            if self_.i == at:
                                g.close()
                            return ListSource.read(self_)
                    vals["cur"] = v2
                    got = [[s, e, list(d)] for (d, s, e) in tkc.tokenize(Closing(len(v2)))]
                    stats["evals"] += 1
                    hw = "a generator abandoned half-way and closed (garbage-collected) while the next run reads frame %d" % at
                    if got != fresh and "C20" not in viol:
                        viol["C20"] = {"cfg": cfg, "first_stream": v1, "second_stream": v2, "earlier_use": hw,
                                       "what": "reused tokenizer differs from a fresh one", "reused": got, "fresh": fresh}
                    judge(got, hw)
                    continue
                if how == "deferred":
                    # both generators are created before either is consumed, then consumed one after the other
                    class VSrc(ListSource):
                        def __init__(self, verdicts):
                            ListSource.__init__(self, len(verdicts)); self.v = verdicts
                    vals = {"cur": None}
                    tkd = StreamTokenizerProxy(cfg, vals)
                    s1, s2 = ListSource(len(v1)), ListSource(len(v2))
                    g1 = tkd.tokenize(s1, generator=True)
                    g2 = tkd.tokenize(s2, generator=True)
                    vals["cur"] = v1
                    list(g1)
                    vals["cur"] = v2
                    got = [[s, e, list(d)] for (d, s, e) in g2]
                    stats["evals"] += 1
                    if got != fresh and "C20" not in viol:
                        viol["C20"] = {"cfg": cfg, "first_stream": v1, "second_stream": v2, "earlier_use": "a second generator created before the first one was consumed",
                                       "what": "reused tokenizer differs from a fresh one", "reused": got, "fresh": fresh}
                    if got != fresh and "C08" not in viol:
                        viol["C08"] = {"cfg": cfg, "first_stream": v1, "second_stream": v2,
                                       "what": "generator delivery differs from list delivery when the generator is created before an earlier one is consumed", "generator": got, "list": fresh}
                    continue
                if how == "source error":
                    # the earlier run died in the middle: its source raised after about half of the frames
                    class Failing(ListSource):
                        def read(self_):
                            if self_.i >= (len(v1) + 1) // 2:
                                raise IOError("source failure injected by the check")
                            return ListSource.read(self_)
                    try:
                        tk2.tokenize(Failing(len(v1)))
                    except IOError:
                        pass
                elif how == "callback error":
                    def cb(*a):
                        raise KeyError("callback failure injected by the check")
                    try:
                        tk2.tokenize(ListSource(len(v1)), callback=cb)
                    except KeyError:
                        pass
                elif how == "complete":
                    tk2.tokenize(ListSource(len(v1)))
                elif how == "callback":
                    tk2.tokenize(ListSource(len(v1)), callback=lambda *a: None)
                else:
                    g = tk2.tokenize(ListSource(len(v1)), generator=True)
                    if how == "partial":
                        try:
                            next(g)
                        except StopIteration:
                            pass
                    else:
                        src = ListSource(len(v1))
                        g = tk2._iter_tokens(src) if False else tk2.tokenize(src, generator=True)
                        # abandoned after consuming about half of the frames: pull tokens until the source is half read
                        try:
                            while src.i < (len(v1) + 1) // 2:
                                next(g)
                        except StopIteration:
                            pass
                    del g
                got, _ = impl_tokens(tk2, ref, v2, "list")
                stats["evals"] += 1
                if got != fresh and "C20" not in viol:
                    viol["C20"] = {"cfg": cfg, "first_stream": v1, "second_stream": v2, "earlier_use": how,
                                   "what": "reused tokenizer differs from a fresh one", "reused": got, "fresh": fresh}
                judge(got, how)
                if got != model["reuse"][k] and len(mism) < 5:
                    mism.append({"cfg": cfg, "first": v1, "second": v2, "earlier_use": how, "impl": got, "model": model["reuse"][k]})
            if fresh:
                stats["nontrivial"].add((cfg, tuple(v1), tuple(v2)))
    stats["nontrivial"] = len(stats["nontrivial"])
    return stats, mism, viol


def prefix_law(pre, full, idx, cut):
    """tokens of v[:cut] = tokens of v handed over within the first `cut` reads (+ possibly a shorter flushed version)"""
    within = [t for t, r in idx if r <= cut]
    if pre[:len(within)] != within:
        return "prefix of %d frames: tokens %r do not start with the tokens of the whole stream decided within the prefix %r" % (cut, pre, within)
    extra = pre[len(within):]
    if len(extra) > 1:
        return "prefix of %d frames yields %d extra tokens" % (cut, len(extra))
    if extra:
        rest = full[len(within):]
        if not rest or rest[0][0] != extra[0][0] or rest[0][2][:len(extra[0][2])] != extra[0][2]:
            return "flushed token %r of the prefix is not a shorter version of the next token of the whole stream %r" % (extra[0], rest[:1])
    return None


def model_for(kind, cfgs, streams):
    """One driver case per config; returns per-config `want` (the model's answer)."""
    if kind == "tokens":
        t = C.model_eval([(5, list(c) + [streams]) for c in cfgs])
        s = C.model_eval([(8, list(c) + [streams]) for c in cfgs])
        return [([0, {"tok": a[1], "seg": b[1]}] if a[0] == 0 else a) for a, b in zip(t, s)], \
               [(5, list(c) + [streams]) for c in cfgs], t
    if kind == "idx":
        cases = [(7, list(c) + [streams]) for c in cfgs]
        t = C.model_eval(cases)
        return [([0, {"idx": a[1]}] if a[0] == 0 else a) for a in t], cases, t
    if kind == "reuse":
        cases = []
        for c in cfgs:
            for v1, v2 in streams:
                cases.append((4, list(c) + [v1, v2]))
        t = C.model_eval(cases)
        per = len(streams)
        out = []
        for i, c in enumerate(cfgs):
            block = t[i * per:(i + 1) * per]
            if block and block[0][0] != 0:
                out.append(block[0])
            else:
                out.append([0, {"reuse": [b[1] for b in block]}])
        return out, cases, t


def correspondence(kind, cfgs, streams, pool):
    want, cases, raw = model_for(kind, cfgs, streams)
    jobs = [(kind, c, streams, w) for c, w in zip(cfgs, want)]
    tot = {"evals": 0, "nontrivial": 0, "tokens": 0}
    mism, viol = [], {}
    for st, m, vi in pool.imap_unordered(_worker, jobs, chunksize=max(1, len(jobs) // (C.NCPU * 8))):
        for k in tot:
            tot[k] += st.get(k, 0)
        mism.extend(m[:2])
        for k, v in vi.items():
            viol.setdefault(k, v)
    return tot, mism, viol, cases, raw


def random_cases(r, count, maxlen, maxparam):
    cfgs, streams = [], []
    for _ in range(count):
        mx = r.randint(1, maxparam)
        mn = r.randint(1, mx)
        ms = r.randint(-1, mx - 1)
        imin = r.choice([0, 0, 1, r.randint(0, mx - 1)])
        ims = r.randint(0, 5)
        cfgs.append((mn, mx, ms, imin, ims, r.choice(MODES)))
    for _ in range(6):
        n = r.randint(maxlen // 2, maxlen)
        p = r.choice([0.2, 0.5, 0.8, 0.95])
        burst = r.randint(1, 40)
        v, cur = [], 0
        while len(v) < n:
            cur = 1 if r.random() < p else 0
            v.extend([cur] * r.randint(1, burst))
        streams.append(v[:n])
    return cfgs, streams


def accept_grid(lo, hi, mlo, mhi):
    rng_ = range(lo, hi + 1)
    return [list(t) for t in itertools.product(rng_, rng_, rng_, rng_, rng_, range(mlo, mhi + 1))]


def _accept_worker(chunk):
    sys.path.insert(0, C.REPO)
    from auditok.core import StreamTokenizer
    out = []
    for mn, mx, ms, imin, ims, mode in chunk:
        try:
            StreamTokenizer(lambda f: True, mn, mx, ms, init_min=imin, init_max_silence=ims, mode=mode)
            out.append(0)
        except Exception as e:
            out.append(exc_code(e))
    return out


def split_laziness(r, n_cases):
    """C08 at the level of split(): how much of the input has been pulled when each region reaches the consumer.
    Inputs that can be observed: a counting AudioSource, an AudioReader over one, and standard input ('-')."""
    import io as _io
    import struct
    import auditok
    import auditok.io as aio
    from auditok.util import AudioReader
    evals, viol = 0, None
    for it in range(n_cases):
        rate = r.choice([10, 100, 1000]); W = r.choice([1, 2, 5]); sw = 2
        nwin = r.randint(3, 40)
        pat, cur = [], 0
        while len(pat) < nwin:
            cur = 1 - cur if pat else r.choice([0, 1])
            pat.extend([cur] * r.randint(1, 6))
        pat = pat[:nwin]
        samples = []
        for on in pat:
            samples.extend([(8000 if i % 2 == 0 else -8000) if on else 0 for i in range(W)])
        data = struct.pack("<%dh" % len(samples), *samples)
        aw = W / rate
        mn = r.choice([1, 2]); mx = r.choice([3, 5, 50]); ms = r.choice([0, 1, 2])
        if ms >= mx:
            ms = mx - 1
        kw = dict(min_dur=mn * aw, max_dur=mx * aw, max_silence=ms * aw, energy_threshold=50)
        for kind in ("source", "reader", "stdin"):
            pulled = [0]

            class Counting(aio.BufferAudioSource):
                def read(self, size):
                    b = super().read(size)
                    if b is not None:
                        pulled[0] += len(b) // sw
                    return b

            class CountingStdin(_io.RawIOBase):
                def __init__(self):
                    self.i = 0

                def readable(self):
                    return True

                def readinto(self, b):
                    k = min(len(b), len(data) - self.i)
                    b[:k] = data[self.i:self.i + k]
                    self.i += k
                    pulled[0] = self.i // sw
                    return k
            old_stdin = sys.stdin
            try:
                if kind == "source":
                    gen = auditok.split(Counting(data, rate, sw, 1), analysis_window=aw, **kw)
                elif kind == "reader":
                    gen = auditok.split(AudioReader(Counting(data, rate, sw, 1), block_dur=aw), **kw)
                else:
                    class FakeStdin:
                        buffer = _io.BufferedReader(CountingStdin(), buffer_size=sw * W)
                    sys.stdin = FakeStdin
                    gen = auditok.split("-", analysis_window=aw, sr=rate, sw=sw, ch=1, **kw)
                regs = []
                for reg in gen:
                    regs.append((round(reg.meta.start * rate), len(reg), pulled[0]))
            except Exception as e:   # noqa
                regs = "raised %s: %s" % (type(e).__name__, e)
            finally:
                sys.stdin = old_stdin
            evals += 1
            if isinstance(regs, str):
                continue
            total = len(samples)
            for (s0, n, got) in regs:
                end_win = (s0 + n - 1) // W                      # last window of the region
                nw = -(-n // W)
                # decided by the window completing max_length, by the first window of excess silence, or by end of stream;
                # a BufferedReader may have prefetched up to one more window from the raw stdin
                limit = (end_win + 1) if nw == mx else (end_win + 1 + ms + 1)
                slack = W if kind == "stdin" else 0
                if got > min(total, limit * W + slack) and viol is None:
                    viol = {"what": "split() through %s had pulled %d samples (of %d) when the region of windows %d..%d reached the consumer; "
                                    "its end is decided after window %d at the latest (%d samples)" % (
                                        {"source": "an AudioSource object", "reader": "an AudioReader", "stdin": "standard input ('-')"}[kind], got, total,
                                        s0 // W, end_win, limit - 1, min(total, limit * W)),
                            "input": kind, "rate": rate, "window_samples": W, "activity_pattern": pat, "min/max/max_silence windows": [mn, mx, ms], "regions(start,len,pulled)": regs}
    return evals, viol


def _pattern_audio(r, W, nwin):
    import struct
    pat, cur = [], 0
    while len(pat) < nwin:
        cur = 1 - cur if pat else r.choice([0, 1])
        pat.extend([cur] * r.randint(1, 9))
    pat = pat[:nwin]
    samples = []
    for on in pat:
        samples.extend([(8000 if i % 2 == 0 else -8000) if on else 0 for i in range(W)])
    return pat, struct.pack("<%dh" % len(samples), *samples)


def split_lengths(r, n_cases):
    """C02 observed at "durations of regions from split()/AudioRegion.split()": no region spans more windows than max_dur allows,
    and with strict_min_dur none spans fewer than min_dur needs -- for bytes, regions, and AudioReader inputs, the latter also
    with overlapping windows (a window is then still block_dur long, whatever hop_dur is)."""
    import auditok
    from auditok.util import AudioReader
    evals, viol = 0, None
    for it in range(n_cases):
        rate = r.choice([10, 100, 1000]); W = r.choice([2, 4, 5, 10]); sw = 2
        pat, data = _pattern_audio(r, W, r.randint(6, 60))
        aw = W / rate
        mn = r.choice([1, 2, 3]); mx = r.choice([3, 4, 5, 8]); ms = r.choice([0, 1, 2])
        strict = r.random() < 0.5
        kw = dict(min_dur=mn * aw, max_dur=mx * aw, max_silence=ms * aw, energy_threshold=50, strict_min_dur=strict)
        hop = r.randint(1, W - 1)
        for kind in ("bytes", "AudioRegion.split", "AudioReader", "AudioReader with overlapping windows (hop %d of %d samples)" % (hop, W)):
            try:
                if kind == "bytes":
                    regs = list(auditok.split(data, analysis_window=aw, sr=rate, sw=sw, ch=1, **kw))
                elif kind == "AudioRegion.split":
                    regs = list(auditok.AudioRegion(data, rate, sw, 1).split(analysis_window=aw, **kw))
                elif kind == "AudioReader":
                    regs = list(auditok.split(AudioReader(data, block_dur=aw, sr=rate, sw=sw, ch=1), **kw))
                else:
                    regs = list(auditok.split(AudioReader(data, block_dur=aw, hop_dur=hop / rate, sr=rate, sw=sw, ch=1), **kw))
            except Exception as e:
                regs = None
                if viol is None:
                    viol = {"what": "split() of %s input raised %s: %s" % (kind, type(e).__name__, e)}
            evals += 1
            if regs is None or viol is not None:
                continue
            for x in regs:
                nf = -(-len(x.data) // (W * sw))
                if nf > mx:
                    viol = {"what": "a region from split() of %s input spans %d windows of %d samples (%.6g s), max_dur=%r allows floor(max_dur/w) = %d" % (kind, nf, W, len(x.data) / sw / rate, kw["max_dur"], mx)}
                elif strict and nf < mn:
                    viol = {"what": "a region from split(strict_min_dur=True) of %s input spans %d windows of %d samples, min_dur=%r needs %d" % (kind, nf, W, kw["min_dur"], mn)}
                if viol:
                    viol.update({"input": kind, "rate": rate, "window_samples": W, "activity_pattern": pat, "parameters": {k_: repr(v_) for k_, v_ in kw.items()},
                                 "regions(start, samples)": [[x.start, len(x.data) // sw] for x in regs]})
                    break
    return evals, viol


def split_interleaved(r, n_cases):
    """Two split() generators alive at the same time and advanced alternately (same settings, different audio): each call has
    its own reader and tokenizer, so each yields what it yields when consumed alone (C08: the only state between hand-overs is
    that call's own; C20: no dependence on other uses)."""
    import itertools
    import auditok
    evals, viol = 0, None
    for it in range(n_cases):
        rate = r.choice([10, 100, 1000]); W = r.choice([1, 2, 5]); sw = 2
        pa, da = _pattern_audio(r, W, r.randint(5, 50))
        pb, db = _pattern_audio(r, W, r.randint(5, 50))
        if r.random() < 0.4:
            pb, db = pa[:len(pa) // 2], da[:(len(pa) // 2) * W * sw]      # a stream and its own prefix
        aw = W / rate
        mn = r.choice([1, 2]); mx = r.choice([3, 5, 50]); ms = r.choice([0, 1, 2])
        if ms >= mx:
            ms = mx - 1
        kw = dict(min_dur=mn * aw, max_dur=mx * aw, max_silence=ms * aw, energy_threshold=50, analysis_window=aw, sr=rate, sw=sw, ch=1)
        enc = lambda regs: [[x.start, len(x.data)] for x in regs]
        alone = [enc(auditok.split(da, **kw)), enc(auditok.split(db, **kw))]
        ga, gb = auditok.split(da, **kw), auditok.split(db, **kw)
        ra, rb = [], []
        for xa, xb in itertools.zip_longest(ga, gb):
            if xa is not None:
                ra.append(xa)
            if xb is not None:
                rb.append(xb)
        evals += 1
        if [enc(ra), enc(rb)] != alone:
            viol = {"what": "two split() generators with the same settings, advanced alternately, yield regions (start, bytes) %r and %r; consumed one after the other the same calls yield %r and %r" % (
                enc(ra)[:8], enc(rb)[:8], alone[0][:8], alone[1][:8]),
                    "rate": rate, "window_samples": W, "activity_pattern_a": pa, "activity_pattern_b": pb, "parameters": {k_: repr(v_) for k_, v_ in kw.items()}}
            break
    return evals, viol


def validator_history(r, n_cases):
    """C20: validators give the same verdict for the same window whatever they judged before (windows of different lengths, all selectors)"""
    import struct
    from auditok.util import AudioEnergyValidator
    evals, viol = 0, None
    for it in range(n_cases):
        sw = r.choice([1, 2, 4]); ch = r.choice([1, 2, 3]); uc = r.choice([None, "any", "mix", "avg", 0, -1])
        amp = {1: 100, 2: 3000, 4: 300000}[sw]; eth = {1: 30, 2: 50, 4: 90}[sw]
        wins = []
        for _ in range(r.randint(2, 7)):
            n = r.choice([1, 2, 5, 10, 20, 50])
            loud = r.random() < 0.5
            vals = []
            for i in range(n):
                for c in range(ch):
                    vals.append((amp if (i + c) % 2 == 0 else -amp) if loud else r.choice([0, 0, 1, -1]))
            wins.append(struct.pack("<%d%s" % (len(vals), {1: "b", 2: "h", 4: "i"}[sw]), *vals))
        try:
            used = AudioEnergyValidator(eth, sw, ch, use_channel=uc)
            hist = [bool(used.is_valid(w)) for w in wins]
            fresh = [bool(AudioEnergyValidator(eth, sw, ch, use_channel=uc).is_valid(w)) for w in wins]
        except Exception:
            continue
        evals += len(wins)
        if hist != fresh and viol is None:
            k = [i for i, (a, b) in enumerate(zip(hist, fresh)) if a != b][0]
            viol = {"what": "validator (sw=%d, ch=%d, use_channel=%r) judges window %d (%d samples) %s after %d earlier windows but %s when fresh" % (
                sw, ch, uc, k, len(wins[k]) // (sw * ch), "active" if hist[k] else "inactive", k, "active" if fresh[k] else "inactive"),
                    "window_lengths_samples": [len(w) // (sw * ch) for w in wins], "verdicts_used_validator": hist, "verdicts_fresh": fresh}
    return evals, viol


def buffer_reopen(r):
    """C20: closing and reopening a buffer source restarts at the beginning, whatever happened before (exhaustive short histories)"""
    from auditok.io import BufferAudioSource
    data = bytes(range(1, 25))
    alpha = ["open", "close", "read2", "read9", "pos5", "pos-1", "rewind"]
    evals, viol = 0, None
    for L in range(0, 5):
        for seq in itertools.product(alpha, repeat=L):
            src = BufferAudioSource(data, 16, 2, 1)
            for o in seq:
                try:
                    if o == "open":
                        src.open()
                    elif o == "close":
                        src.close()
                    elif o == "rewind":
                        src.rewind()
                    elif o.startswith("read"):
                        src.read(int(o[4:]))
                    else:
                        src.position = int(o[3:])
                except Exception:
                    pass
            try:
                src.close(); src.open()
                got = src.read(3)
            except Exception as e:   # noqa
                got = "raised %s" % type(e).__name__
            evals += 1
            if got != data[:6] and viol is None:
                viol = {"what": "buffer source after %r, close(), open(): read(3) returned %r instead of the first three samples %r" % (list(seq), got, data[:6]),
                        "history": list(seq)}
    return evals, viol


def run(prop, tier):
    res = C.Result(prop, tier)
    proof = C.proof_step(PROPS[prop])
    C.import_auditok()
    tie = tie_T()
    if not tie["ok"]:
        # the structural translator is strict about the shape of the source; a refactored but equivalent class is accepted
        # when the tolerant translation proves it equal to the model
        tie2 = tie_T2()
        if tie2["ok"]:
            tie = {"ok": True, "sha": tie2["sha"], "obligations": tie2["obligations"], "dir": None,
                   "detail": tie2["detail"] + " [structural translator: " + tie["detail"][:200] + "]"}
        else:
            tie["detail"] = tie["detail"] + " || " + tie2["detail"]
    proof["tie_obligations"] = tie["obligations"]
    proof["trusted"] = [
        "translator harness/py2coq/tok.py (fail-closed Python-ast -> Gallina; Python semantics assumed: eager left-to-right evaluation, and/or on booleans, slice normalisation py_slice)",
        "extraction (ExtrOcamlBasic only, no Extract Constant) + harness/ocaml/driver.ml, cross-checked by vm_compute on a sample",
        "correspondence harness (CPython 3.12, the frames are distinct ints, validator = lookup of the verdict)",
        "modelled, not verified: the tokenizer class is tied by translation for all inputs; DataSource/validator objects are abstracted as a verdict sequence (validator called once per frame, in order)",
    ]
    if not tie["ok"]:
        proof["undischarged"] = tie["obligations"]
    quick = tier == "quick"
    r = C.rng(prop)
    N = 8 if quick else 11
    cfgs = grid(4)
    streams = streams_upto(N)
    samples = []
    tot_ev = tot_nt = 0
    mismatches, violations = [], {}
    vm_n = 0
    with mp.get_context("fork").Pool(C.NCPU) as pool:
        if prop in ("C01", "C02", "C03", "C04"):
            t, m, v, cases, raw = correspondence("tokens", cfgs, streams, pool)
            tot_ev += t["evals"]; tot_nt += t["nontrivial"]; mismatches += m
            for k, x in v.items():
                violations.setdefault(k, x)
            rc, rs = random_cases(r, 40 if quick else 400, 600 if quick else 5000, 40 if quick else 300)
            t, m, v, cases2, raw2 = correspondence("tokens", rc, rs, pool)
            tot_ev += t["evals"]; tot_nt += t["nontrivial"]; mismatches += m
            for k, x in v.items():
                violations.setdefault(k, x)
            samples.append({"config(min,max,max_sil,init_min,init_max_sil,mode)": list(cfgs[len(cfgs) // 2]), "verdicts": streams[-3],
                            "model_tokens": raw[len(cfgs) // 2][1][-3] if raw[len(cfgs) // 2][0] == 0 else raw[len(cfgs) // 2]})
            samples.append({"config": list(rc[0]), "verdicts_len": len(rs[0]), "model_tokens_first3": raw2[0][1][0][:3]})
            # the same statements for a tokenizer that was used before (complete, partial, abandoned, failed, deferred ... earlier runs)
            base = streams_upto(4)
            t, m, v, _, _ = correspondence("reuse", cfgs[::3] if quick else cfgs, [(a, b) for a in base for b in base], pool)
            tot_ev += t["evals"]; mismatches += m
            for k, x in v.items():
                violations.setdefault(k, x)
        if prop == "C02":
            ev_s, v_s = split_lengths(r, 150 if quick else 2000)
            tot_ev += ev_s
            res.notes["split_region_length_runs"] = ev_s
            if v_s:
                violations.setdefault("C02", v_s)
            g = accept_grid(-1, 4, -1, 7) if quick else accept_grid(-2, 6, -1, 8)
            want = C.model_eval([(6, g)])[0]
            chunks = [g[i:i + 5000] for i in range(0, len(g), 5000)]
            got = []
            for part in pool.imap(_accept_worker, chunks):
                got.extend(part)
            tot_ev += len(g)
            acc = sum(1 for x in got if x == 0)
            tot_nt += acc
            res.notes["accept_grid"] = {"tuples": len(g), "accepted": acc, "rejected": len(g) - acc}
            for tup, a, b in zip(g, got, want):
                if a != b:
                    what = "constructor %s tuple %r but the model %s" % ("accepts" if a == 0 else "rejects (code %d)" % a, tup, "accepts" if b == 0 else "rejects with ValueError")
                    mismatches.append({"tuple": tup, "impl": a, "model": b})
                    violations.setdefault("C02", {"tuple(min,max,max_sil,init_min,init_max_sil,mode)": tup, "what": what})
                    break
        if prop == "C08":
            st8 = streams_upto(6 if quick else 8)
            t, m, v, cases, raw = correspondence("idx", cfgs, st8, pool)
            tot_ev += t["evals"]; tot_nt += t["nontrivial"]; mismatches += m
            for k, x in v.items():
                violations.setdefault(k, x)
            t, m, v, _, _ = correspondence("tokens", cfgs, streams_upto(6), pool)   # delivery modes + read count
            tot_ev += t["evals"]; mismatches += m
            for k, x in v.items():
                violations.setdefault(k, x)
            rc, rs = random_cases(r, 20 if quick else 200, 300, 30)
            t, m, v, _, _ = correspondence("idx", rc, [s[:120] for s in rs], pool)
            tot_ev += t["evals"]; tot_nt += t["nontrivial"]; mismatches += m
            for k, x in v.items():
                violations.setdefault(k, x)
            samples.append({"config": list(cfgs[700]), "verdicts": st8[-5], "model_tokens_with_read_count": raw[700][1][-5] if raw[700][0] == 0 else raw[700]})
            # deferred generators (also a C20 history) on a sub-grid
            t, m, v, _, _ = correspondence("reuse", cfgs[::9], [(a, b) for a in streams_upto(3) for b in streams_upto(4)], pool)
            tot_ev += t["evals"]; mismatches += m
            if "C08" in v:
                violations.setdefault("C08", v["C08"])
            ev_l, v_l = split_laziness(r, 60 if quick else 600)
            tot_ev += ev_l
            res.notes["split_laziness_runs"] = ev_l
            if v_l:
                violations.setdefault("C08", v_l)
            ev_i, v_i = split_interleaved(r, 80 if quick else 800)
            tot_ev += ev_i
            res.notes["split_interleaved_runs"] = ev_i
            if v_i:
                violations.setdefault("C08", v_i)
        if prop == "C20":
            base = streams_upto(4 if quick else 5)
            pairs = [(a, b) for a in base for b in base]
            sub = cfgs if not quick else cfgs[::3]
            t, m, v, cases, raw = correspondence("reuse", sub, pairs, pool)
            tot_ev += t["evals"]; tot_nt += t["nontrivial"]; mismatches += m
            for k, x in v.items():
                violations.setdefault(k, x)
            samples.append({"config": list(sub[100]), "first_stream": pairs[-7][0], "second_stream": pairs[-7][1]})
            ev_v, v_v = validator_history(r, 400 if quick else 4000)
            ev_b, v_b = buffer_reopen(r)
            tot_ev += ev_v + ev_b
            res.notes["validator_history_windows"] = ev_v
            res.notes["buffer_reopen_histories"] = ev_b
            ev_i, v_i = split_interleaved(r, 80 if quick else 800)
            tot_ev += ev_i
            res.notes["split_interleaved_runs"] = ev_i
            for vv in (v_v, v_b, v_i):
                if vv:
                    violations.setdefault("C20", vv)
    # cross-check of the extraction on a sample of single cases
    sample_cases = []
    for _ in range(25):
        c = r.choice(cfgs); s = r.choice(streams[: 200])
        sample_cases.append((1 if prop not in ("C08",) else 2, list(c) + [s]))
    vm_n = C.vm_crosscheck(sample_cases, C.model_eval(sample_cases), prop)
    res.coverage.update({
        "evaluations": tot_ev, "distinct_nontrivial": tot_nt,
        "rule": "exhaustive: every validity pattern of length <= %d x the %d-configuration grid (max_length<=4, all min/max_sil/init_min, init_max_sil<=2, 4 modes), plus seeded random long streams with large parameters; a case is non-trivial when the implementation delivers at least one token (distinct (config, stream) pairs counted)" % (N, len(cfgs)),
        "samples": samples, "exhaustive": True,
        "vm_compute_crosschecked": vm_n, "tie_translation": tie["detail"][:300],
        "correspondence_mismatches": len(mismatches),
    })
    # ---------------- verdict
    if prop in violations:
        v = violations[prop]
        res.add_violation(v.get("what", "property violated on the implementation"), v, witness_key=None)
    elif not tie["ok"] and not mismatches:
        res.tie_undischarged("translation tie broken: " + tie["detail"][:700] + " -- the correspondence agrees on all %d runs and the property's checker found no failing input" % tot_ev,
                             {"no_longer_checks": "TokTie.v / TokTie2.v tie lemmas, TokGenProps.v %s_gen" % prop, "tie_detail": tie["detail"]})
    elif not tie["ok"] or mismatches:
        what = []
        if not tie["ok"]:
            what.append("translation tie broken: " + tie["detail"][:400])
        if mismatches:
            what.append("correspondence model/implementation differs: %r" % (mismatches[0],))
        res.add_violation("; ".join(what) + " -- the property's checker found no failing input on the implementation (%d runs)" % tot_ev,
                          {"no_longer_checks": ("TokTie.v tie lemmas / TokGenProps.v %s_gen" % prop) if not tie["ok"] else "correspondence op tokenize",
                           "tie_detail": tie["detail"], "first_mismatches": mismatches[:3]}, no_input=True)
    return res.finish(proof)
