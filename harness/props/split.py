"""C05 (split regions are the input's own bytes at the reported times) and
C09 (same audio, same result whatever the container or spelling).
Coq theorems in Split/SplitProofs.v + correspondence of split() with the
composed model (windows -> exact energy verdicts -> tokenizer -> regions with
bit-exact binary64 times) on synthesized audio whose window energies are far
from the threshold; C09 runs every case through nine containers and the alias
spellings."""
import ast
import io
import os
import sys
import shutil
import math
import struct
import warnings
import wave

from .. import common as C
from .tok import exc_code
from .energy import sel_tree

FMT = {1: "b", 2: "h", 4: "i"}
ALIASES = [("sampling_rate", "sr"), ("sample_width", "sw"), ("channels", "ch"), ("analysis_window", "aw"),
           ("energy_threshold", "eth"), ("use_channel", "uc"), ("max_read", "mr"), ("audio_format", "fmt"), ("validator", "val")]


FRAGILE = [(rate, n) for rate in (7, 100, 441, 11025, 22050, 44100, 48000) for n in range(1, 130) if int(n / rate * rate) != n]


def synth(r, rate, w, ch, W, nwin, partial, faint=False):
    """audio whose windows are clearly active (about 60-70 dB for w>=2, 40 dB for w=1) or clearly silent;
    faint: active windows of amplitude 4 (about 12 dB) between windows of digital silence, for thresholds around 0 dB"""
    loud = 4 if faint else {1: 100, 2: 3000, 4: 300000}[w]
    pattern, data = [], []
    p_on = r.choice([0.3, 0.5, 0.7]); run = r.randint(1, 6)
    cur = 0
    while len(pattern) < nwin:
        cur = 1 if r.random() < p_on else 0
        pattern.extend([cur] * r.randint(1, run))
    pattern = pattern[:nwin]
    active_ch = r.randrange(ch)
    for k, on in enumerate(pattern):
        n = W if k < nwin - 1 or not partial else r.randint(1, W)
        for i in range(n):
            for c in range(ch):
                if on and (c == active_ch or r.random() < 0.3):
                    data.append(loud if (i + c) % 2 == 0 else -loud)
                else:
                    data.append(0 if faint else r.choice([0, 1, -1, 2]))
    return struct.pack("<%d%s" % (len(data), FMT[w]), *data), pattern, active_ch


def enc_regions(regs):
    return [[list(x.data), C.fhex_me(x.start), C.fhex_me(x.end), C.fhex_me(x.duration), x.sr, x.sw, x.ch] for x in regs]


def enc_model(o, rate, w, ch):
    if o[0] != 0:
        return o
    return [0, [[d, st, en, du, rate, w, ch] for d, s, e, st, en, du in o[1]]]


def gen_case(r, quick):
    rate = r.choice([10, 100, 8000, 16000, 44100, 7])
    w = r.choice([1, 2, 4]); ch = r.choice([1, 1, 2, 3])
    W = r.choice([1, 2, 3, 5, 8])
    aw = W / rate
    if r.random() < 0.2:
        aw = (W + 0.5) / rate          # non-integer aw*rate: window of W samples, counts use aw
    if r.random() < 0.12:
        # window sizes n for which (n / rate) * rate is not n in binary64: a conversion back from the block duration
        # by truncation would lose a sample per window there
        rate, W = r.choice(FRAGILE)
        aw = (W + 0.5) / rate
    if r.random() < 0.1:
        # a window duration whose product with the rate is the largest double below a whole number n: the window is
        # floor(aw * rate) = n - 1 samples, however close to n the product is
        n_ = r.randint(2, 9)
        aw = n_ / rate
        while aw * rate >= n_:
            aw = math.nextafter(aw, 0.0)
        W = int(aw * rate)
    nwin = r.randint(0, 25 if quick else 60)
    faint = r.random() < 0.15
    data, pattern, act = synth(r, rate, w, ch, W, nwin, r.random() < 0.5, faint)
    k = r.randint(1, 4)
    params = {
        "min_dur": r.choice([aw, 2 * aw, 3 * aw, aw * 0.5, 0.2 * W]),
        "max_dur": r.choice([4 * aw, 6 * aw, 10 * aw, 3 * aw]),
        "max_silence": r.choice([0, aw, 2 * aw, aw * 0.4]),
        "drop_trailing_silence": r.random() < 0.5,
        "strict_min_dur": r.random() < 0.5,
    }
    if r.random() < 0.12 and not faint:
        # the input IS one burst about as long as min_dur: one window short of it, exactly it, or completed by a partial last window
        k = r.randint(1, 4)
        params["min_dur"] = k * aw
        params["max_dur"] = (k + r.randint(1, 4)) * aw
        n = r.choice([k * W, (k - 1) * W, (k - 1) * W + r.randint(1, W), k * W + 1])
        loud = {1: 100, 2: 3000, 4: 300000}[w]
        vals = [(loud if (i + c) % 2 == 0 else -loud) for i in range(n) for c in range(ch)]
        data = struct.pack("<%d%s" % (len(vals), FMT[w]), *vals)
        pattern, act = [1] * (-(-n // W)), 0
    eth = r.choice([0, 0, 5, -10, -150]) if faint else {1: 30, 2: 50, 4: 90}[w]
    uc = r.choice([None, "any", "mix", act, act - ch, 0, "avg"]) if ch > 1 else r.choice([None, "mix", 0, 7])
    return dict(rate=rate, w=w, ch=ch, W=W, aw=aw, data=data, params=params, eth=eth, uc=uc, pattern=pattern)


def model_case(cs, mx=None):
    p = cs["params"]
    return (70, [list(cs["data"]), cs["rate"], cs["w"], cs["ch"], C.fhex_me(p["min_dur"]), C.fhex_me(p["max_dur"]), C.fhex_me(p["max_silence"]),
                 C.fhex_me(cs["aw"]), 1 if p["strict_min_dur"] else 0, 1 if p["drop_trailing_silence"] else 0, sel_tree(cs["uc"]), cs["eth"], 1,
                 [] if mx is None else [mx]])


def describe(cs):
    return {"rate": cs["rate"], "sw": cs["w"], "ch": cs["ch"], "analysis_window": cs["aw"], "window_samples": cs["W"], "bytes": len(cs["data"]),
            "activity_pattern": cs["pattern"] if len(cs["pattern"]) < 200 else "long", "energy_threshold": cs["eth"], "use_channel": cs["uc"], **cs["params"]}


def impl_split(au, inp, cs, extra=None, **over):
    kw = dict(cs["params"])
    kw.update(analysis_window=cs["aw"], energy_threshold=cs["eth"], use_channel=cs["uc"])
    if isinstance(inp, (bytes, str)) and not str(inp).endswith(".wav"):
        kw.update(sampling_rate=cs["rate"], sample_width=cs["w"], channels=cs["ch"])
    if extra:
        kw.update(extra)
    kw.update(over)
    try:
        return [0, enc_regions(list(au.split(inp, **kw)))]
    except Exception as e:
        return [1, exc_code(e)]


def chk_C05(cs, enc):
    """the statement on the implementation's regions"""
    if enc[0] != 0:
        return None
    data, rate, bps, W = cs["data"], cs["rate"], cs["w"] * cs["ch"], cs["W"]
    prev_end = -1
    for d, st, en, du, sr, sw, ch in enc[1]:
        start, end, dur = C.me_float(st), C.me_float(en), C.me_float(du)
        if (sr, sw, ch) != (rate, cs["w"], cs["ch"]):
            return "region has audio parameters %r, input has %r" % ((sr, sw, ch), (rate, cs["w"], cs["ch"]))
        s0 = round(start * rate)
        if abs(s0 - start * rate) > 1e-6 or s0 % W:
            return "region start %r s is not a whole number of analysis windows (%r samples, window %d)" % (start, start * rate, W)
        n = len(d) // bps
        if len(d) % bps or bytes(d) != data[s0 * bps:(s0 + n) * bps]:
            return "region at %r s does not carry the input bytes of samples [%d, %d)" % (start, s0, s0 + n)
        if abs((end - start) - dur) > 1e-9 or abs(dur - n / rate) > 1e-9:
            return "region times inconsistent: start %r end %r duration %r samples %d rate %d" % (start, end, dur, n, rate)
        if s0 <= prev_end:
            return "regions overlap or are out of order at sample %d" % s0
        prev_end = s0 + n - 1
    return None


def split_from_pipe_stdin(au, cs, data, burst):
    """split("-") with standard input a real OS pipe (fileno and all) fed by a producer thread in bursts"""
    import threading
    import time as _time
    rfd, wfd = os.pipe()

    def go():
        with os.fdopen(wfd, "wb") as f:
            for i in range(0, len(data), burst):
                f.write(data[i:i + burst]); f.flush()
                _time.sleep(0.001)
    th = threading.Thread(target=go, daemon=True)
    th.start()

    class PipeStdin:
        buffer = os.fdopen(rfd, "rb")
    old = sys.stdin
    sys.stdin = PipeStdin
    try:
        return impl_split(au, "-", cs)
    finally:
        sys.stdin = old
        th.join(5)
        try:
            PipeStdin.buffer.close()
        except Exception:
            pass


def expected_by_statement(au, cs):
    """last clause of the statement, evaluated without the model: the regions are the tokenizer segmentation (the tree's own
    StreamTokenizer, judged by C01-C04) of the per-window decisions (the C07 rule, in exact arithmetic) of the input's windows,
    with the window counts of C06 (exact ceil / floor). Returns the list of (first sample, number of samples) or None when a
    window's energy or a quotient is too close to a boundary to be judged here."""
    from fractions import Fraction
    from .duration import exact_count
    data, rate, w, ch, W = cs["data"], cs["rate"], cs["w"], cs["ch"], cs["W"]
    bps = w * ch
    nsamp = len(data) // bps
    vals = struct.unpack("<%d%s" % (nsamp * ch, FMT[w]), data[:nsamp * bps])
    thr = Fraction(10) ** 0 * Fraction(10 ** (cs["eth"] / 10.0))
    uc = cs["uc"]
    decisions = []
    for k in range(0, nsamp, W):
        frames = [vals[i * ch:(i + 1) * ch] for i in range(k, min(k + W, nsamp))]
        n = len(frames)
        if ch == 1:
            es = [Fraction(sum(f[0] * f[0] for f in frames), n)]
        elif uc in (None, "any"):
            es = [Fraction(sum(f[c] * f[c] for f in frames), n) for c in range(ch)]
        elif uc in ("mix", "avg", "average"):
            es = [sum(Fraction(sum(f), ch) ** 2 for f in frames) / n]
        elif isinstance(uc, int) and -ch <= uc < ch:
            es = [Fraction(sum(f[uc] * f[uc] for f in frames), n)]
        else:
            return None
        e = max(es)
        if e != 0 and abs(float(e) / float(thr) - 1) < 0.02:
            return None
        decisions.append(e >= thr and e != 0 or (e == 0 and cs["eth"] <= -200))
    p = cs["params"]
    wq = Fraction(cs["aw"])
    mn, mx, ms = exact_count(p["min_dur"], wq, True), exact_count(p["max_dur"], wq, False), exact_count(p["max_silence"], wq, False)
    if None in (mn, mx, ms):
        return None
    mn = max(mn, 1)
    if p["min_dur"] <= 0 or p["max_dur"] <= 0 or p["max_silence"] < 0 or mn > mx or ms >= mx:
        return None
    mode = (au.StreamTokenizer.DROP_TRAILING_SILENCE if p["drop_trailing_silence"] else 0) | (au.StreamTokenizer.STRICT_MIN_LENGTH if p["strict_min_dur"] else 0)

    class Src:
        def __init__(self):
            self.i = -1

        def read(self):
            self.i += 1
            return self.i if self.i < len(decisions) else None

    try:
        toks = au.StreamTokenizer(lambda k: decisions[k], mn, mx, ms, mode=mode).tokenize(Src())
    except Exception:
        return None
    return [(s * W, min((e + 1) * W, nsamp) - s * W) for _, s, e in toks]


def chk_C05_composition(au, cs, enc):
    if enc[0] != 0:
        return None
    exp = expected_by_statement(au, cs)
    if exp is None:
        return None
    bps = cs["w"] * cs["ch"]
    got = [(round(C.me_float(st) * cs["rate"]), len(d) // bps) for d, st, en, du, sr, sw, ch in enc[1]]
    if got != exp:
        return ("split() yields regions (first sample, samples) %r, but the tokenizer segmentation of the per-window decisions (energy >= %r dB, use_channel=%r, windows of %d samples) "
                "with the window counts of min_dur/max_dur/max_silence is %r" % (got[:8], cs["eth"], cs["uc"], cs["W"], exp[:8]))
    return None


def alias_sites():
    """AST scan of every X.get("long", Y.get("short"[, default])) site in the package"""
    found = {}
    for f in ("core.py", "util.py", "io.py", "workers.py", "cmdline_util.py"):
        tree = ast.parse(open(os.path.join(C.REPO, "auditok", f)).read())
        for node in ast.walk(tree):
            if (isinstance(node, ast.Call) and isinstance(node.func, ast.Attribute) and node.func.attr == "get" and len(node.args) == 2
                    and isinstance(node.args[0], ast.Constant) and isinstance(node.args[1], ast.Call)
                    and isinstance(node.args[1].func, ast.Attribute) and node.args[1].func.attr == "get"
                    and node.args[1].args and isinstance(node.args[1].args[0], ast.Constant)):
                found.setdefault((node.args[0].value, node.args[1].args[0].value), []).append("%s:%d" % (f, node.lineno))
            # for long_name, short_name in (("sampling_rate", "sr"), ...): d.get(long_name, d.get(short_name))
            if (isinstance(node, ast.For) and isinstance(node.target, ast.Tuple) and len(node.target.elts) == 2
                    and all(isinstance(e, ast.Name) for e in node.target.elts) and isinstance(node.iter, (ast.Tuple, ast.List))):
                ln, sn = node.target.elts[0].id, node.target.elts[1].id
                for sub in ast.walk(node):
                    if (isinstance(sub, ast.Call) and isinstance(sub.func, ast.Attribute) and sub.func.attr == "get" and len(sub.args) == 2
                            and isinstance(sub.args[0], ast.Name) and isinstance(sub.args[1], ast.Call)
                            and isinstance(sub.args[1].func, ast.Attribute) and sub.args[1].func.attr == "get"
                            and sub.args[1].args and isinstance(sub.args[1].args[0], ast.Name)):
                        a, b = sub.args[0].id, sub.args[1].args[0].id
                        for pair in node.iter.elts:
                            if isinstance(pair, ast.Tuple) and len(pair.elts) == 2 and all(isinstance(e, ast.Constant) for e in pair.elts):
                                vals = {ln: pair.elts[0].value, sn: pair.elts[1].value}
                                found.setdefault((vals[a], vals[b]), []).append("%s:%d" % (f, sub.lineno))
    return found


def large_cases(r, quick):
    """audio beyond small sizes: a detection of thousands of windows ending in a partial window, windows of more than 65536
    samples of multi-channel audio, blocks larger than a mebibyte, wav files of more than 2^22 frames"""
    out = []

    def mk(rate, w, ch, W, pattern, partial, mind, maxd, sil):
        loud = {1: 100, 2: 3000, 4: 300000}[w]
        vals = []
        for k, on in enumerate(pattern):
            n = W if (k < len(pattern) - 1 or not partial) else partial
            if on:
                base = [loud if (i % 2 == 0) else -loud for i in range(n)]
            else:
                base = [0] * n
            for x in base:
                vals.extend([x] * ch)
        data = struct.pack("<%d%s" % (len(vals), FMT[w]), *vals)
        aw = W / rate
        return dict(rate=rate, w=w, ch=ch, W=W, aw=aw, data=data, pattern=pattern if len(pattern) < 100 else "run-lengths", eth={1: 30, 2: 50, 4: 90}[w], uc=None,
                    params={"min_dur": mind, "max_dur": maxd, "max_silence": sil, "drop_trailing_silence": False, "strict_min_dur": False})
    out.append(mk(16000, 2, 1, 16, [0] * 30 + [1] * 5000, 7, 0.2, 10.0, 0.3))          # one detection of 5000 windows + 7 samples
    out.append(mk(96000, 2, 2, 96000, [0, 0, 0, 1, 1, 0, 0], 0, 1.0, 5.0, 0.0))          # windows of 96000 stereo samples
    if not quick:
        out.append(mk(8000, 1, 1, 8, [1] * 9000 + [0] * 50 + [1] * 4100, 3, 0.1, 20.0, 0.01))
        out.append(mk(384000, 4, 8, 38400, [0, 1, 1, 0, 1, 0], 0, 0.1, 1.0, 0.0))
    return out


def run(prop, tier):
    res = C.Result(prop, tier)
    proof = C.proof_step(["Props/%s.v" % prop])
    proof["trusted"] = [
        "model Split/Split.v composed from the tokenizer model (tied by translation), the exact energy decision (C07), Split/Duration.v and IO/Reader.v; split() itself is tied by correspondence on synthesized audio whose window energies are far from the threshold",
        "region start/end/duration are compared bit-exactly with Flocq binary64 computations; their arithmetic (start = first window x the reader's block duration, duration = bytes / (rate x width x channels), end = start + duration, and the arguments split() passes) is translated from /repo on every run and proved equal to Split.region_start / region_duration / region_end (harness/py2coq/misc.py group times, TieTimes.v)",
        "extraction (ExtrOcamlBasic only) + OCaml driver, cross-checked by vm_compute on a sample; file system, wave module and sys.stdin replacement exercised, not modelled",
        "alias lookups (C09): every expression of core.py / io.py / util.py that looks a parameter up under its long name and its alias is evaluated symbolically on every run, on a dictionary where each key is absent or present with an opaque value, and compared with Split.resolve (harness/py2coq/alias.py, TieAlias.v)",
    ]
    tie = None
    if prop in ("C05", "C09"):
        from ..py2coq import misctie
        tie = misctie.tie_group("times" if prop == "C05" else "alias")
        proof["tie_obligations"] = tie["obligations"]
        if not tie["ok"]:
            proof["undischarged"] = tie["obligations"]
    au = C.import_auditok()
    import auditok.io as aio
    quick = tier == "quick"
    r = C.rng(prop)
    viol = None
    cases, impl, meta = [], [], []
    round_cases = []
    tmpd = os.path.join(C.TMP, "%s_%d" % (prop, os.getpid()))
    os.makedirs(tmpd, exist_ok=True)
    try:
        if prop == "C05":
            todo = large_cases(r, quick) + [None] * (600 if quick else 8000)
            for cs in todo:
                cs = cs or gen_case(r, quick)
                for how in ("function", "method"):
                    if how == "function":
                        got = impl_split(au, cs["data"], cs)
                    else:
                        reg = au.AudioRegion(cs["data"], cs["rate"], cs["w"], cs["ch"])
                        kw = dict(cs["params"]); kw.update(analysis_window=cs["aw"], energy_threshold=cs["eth"], use_channel=cs["uc"])
                        try:
                            got = [0, enc_regions(list(reg.split(**kw)))]
                        except Exception as e:
                            got = [1, exc_code(e)]
                    cases.append(model_case(cs)); impl.append(got); meta.append({"via": how, **describe(cs)})
                    if viol is None:
                        wv = chk_C05(cs, got) or chk_C05_composition(au, cs, got)
                        if wv:
                            viol = {"what": wv, **meta[-1], "audio_bytes": list(cs["data"])[:2000]}
                    if how == "function":
                        got_fn = got
                    elif viol is None and got != got_fn:
                        # "split() (function or AudioRegion method)": one statement for both, so they cannot differ on the same audio
                        viol = {"what": "AudioRegion.split() and split() disagree on the same audio and parameters: method %s, function %s" % (
                            "raised error code %r" % (got[1],) if got[0] else "%d region(s) %r" % (len(got[1]), [(C.me_float(x[1]), C.me_float(x[2])) for x in got[1]][:6]),
                            "raised error code %r" % (got_fn[1],) if got_fn[0] else "%d region(s) %r" % (len(got_fn[1]), [(C.me_float(x[1]), C.me_float(x[2])) for x in got_fn[1]][:6])),
                                **meta[-1], "audio_bytes": list(cs["data"])[:2000]}
                # the same statement when the audio comes from a file (raw and wav, read at once or window by window)
                if len(todo) and (len(cases) // 2) % 3 == 0 and len(cs["data"]) < 200000:
                    raw_p = os.path.join(tmpd, "c05.raw"); wav_p = os.path.join(tmpd, "c05.wav")
                    # the files replace, in place and with the same size and time stamps (cp -p, rsync -t), files that were split a moment ago
                    for payload in (bytes(reversed(cs["data"])), cs["data"]):
                        open(raw_p, "wb").write(payload)
                        with wave.open(wav_p, "wb") as f:
                            f.setframerate(cs["rate"]); f.setsampwidth(cs["w"]); f.setnchannels(cs["ch"]); f.writeframes(payload)
                        os.utime(raw_p, (1700000000, 1700000000)); os.utime(wav_p, (1700000000, 1700000000))
                        if payload is not cs["data"]:
                            impl_split(au, raw_p, cs); impl_split(au, wav_p, cs)
                    for how, inp, extra in (("raw file, large_file=True", raw_p, dict(large_file=True)), ("raw file", raw_p, {}),
                                            ("wav file, large_file=True", wav_p, dict(large_file=True)), ("wav file", wav_p, {}),
                                            ("AudioRegion that itself carries a start time", None, {}), ("standard input that is a pipe fed in bursts", "-", {})):
                        if inp is None:
                            # a region found by an earlier split (start = 1.25 s there): its sub-regions are located from ITS beginning
                            got = impl_split(au, au.AudioRegion(cs["data"], cs["rate"], cs["w"], cs["ch"], 1.25), cs)
                        elif inp == "-":
                            if len(cs["data"]) > 60000:
                                continue
                            got = split_from_pipe_stdin(au, cs, cs["data"], r.choice([97, 251, 1000, 7]) if len(cs["data"]) < 4000 else 4099)
                        else:
                            got = impl_split(au, inp, cs, extra)
                        cases.append(model_case(cs)); impl.append(got); meta.append({"via": how, **describe(cs)})
                        if viol is None:
                            wv = chk_C05(cs, got)
                            if wv:
                                viol = {"what": wv, **meta[-1], "audio_bytes": list(cs["data"])[:2000]}
        else:
            sites = alias_sites()
            missing = [a for a in ALIASES if a not in sites]
            reversed_ = [a for a in ALIASES if (a[1], a[0]) in sites]
            res.notes["alias_sites"] = {"%s/%s" % k: v for k, v in sites.items()}
            # informational only (a syntactic scan says nothing about behaviour): every alias pair is exercised below by
            # behaviour -- short spelling alone, and both spellings with conflicting values (the long one must win)
            res.notes["alias_sites_not_recognised_syntactically"] = [list(a) for a in missing]
            res.notes["alias_sites_reversed_syntactically"] = [list(a) for a in reversed_]
            for it in range(70 if quick else 800):
                cs = gen_case(r, quick)
                d, rate, w, ch = cs["data"], cs["rate"], cs["w"], cs["ch"]
                raw_p = os.path.join(tmpd, "a%d.raw" % it); wav_p = os.path.join(tmpd, "a%d.wav" % it); noext = os.path.join(tmpd, "a%d" % it)
                open(raw_p, "wb").write(d); open(noext, "wb").write(d)
                with wave.open(wav_p, "wb") as f:
                    f.setframerate(rate); f.setsampwidth(w); f.setnchannels(ch); f.writeframes(d)
                runs = {}
                runs["bytes"] = impl_split(au, d, cs)
                runs["AudioRegion"] = impl_split(au, au.AudioRegion(d, rate, w, ch), cs)
                runs["wav eager"] = impl_split(au, wav_p, cs)
                runs["wav lazy"] = impl_split(au, wav_p, cs, large_file=True)
                runs["raw eager"] = impl_split(au, raw_p, cs)
                runs["raw lazy"] = impl_split(au, raw_p, cs, large_file=True)
                runs["raw by fmt alias"] = impl_split(au, noext, cs, fmt="raw")
                runs["raw by audio_format, conflicting fmt"] = impl_split(au, noext, cs, audio_format="raw", fmt="wav")
                runs["BufferAudioSource"] = impl_split(au, aio.BufferAudioSource(d, rate, w, ch), cs)
                # the file that was split a moment ago is replaced in place by this audio, same size and time stamps (cp -p, rsync -t, tar x)
                for ext, tag in ((".wav", "wav"), (".raw", "raw")):
                    sp = os.path.join(tmpd, "swap" + ext)
                    for payload in (bytes(len(d)) if it % 2 else bytes(reversed(d)), d):
                        if ext == ".wav":
                            with wave.open(sp, "wb") as f:
                                f.setframerate(rate); f.setsampwidth(w); f.setnchannels(ch); f.writeframes(payload)
                        else:
                            open(sp, "wb").write(payload)
                        os.utime(sp, (1700000000, 1700000000))
                        got_sw = impl_split(au, sp, cs)
                    runs["%s file that replaced, in place with the same size and time stamps, a file split just before" % tag] = got_sw
                # the five documented positional parameters of split() given positionally (function and method)
                pp = cs["params"]
                posargs = (pp["min_dur"], pp["max_dur"], pp["max_silence"], pp["drop_trailing_silence"], pp["strict_min_dur"])
                rest_kw = dict(analysis_window=cs["aw"], energy_threshold=cs["eth"], use_channel=cs["uc"])
                try:
                    runs["split(input, min_dur, max_dur, max_silence, drop, strict) positionally"] = [0, enc_regions(list(au.split(d, *posargs, sampling_rate=rate, sample_width=w, channels=ch, **rest_kw)))]
                except Exception as e:
                    runs["split(input, min_dur, max_dur, max_silence, drop, strict) positionally"] = [1, exc_code(e)]
                try:
                    runs["region.split(min_dur, ...) positionally"] = [0, enc_regions(list(au.AudioRegion(d, rate, w, ch).split(*posargs, **rest_kw)))]
                except Exception as e:
                    runs["region.split(min_dur, ...) positionally"] = [1, exc_code(e)]
                # a region describes itself: audio-parameter keywords given next to it (say, defaults meant for raw inputs) have no say
                runs["AudioRegion beside contradicting audio-parameter keywords"] = impl_split(
                    au, au.AudioRegion(d, rate, w, ch), cs, dict(sampling_rate=rate * 2 + 1, sample_width=(2 if w != 2 else 4), channels=ch + 1))
                runs["AudioRegion beside contradicting short aliases"] = impl_split(au, au.AudioRegion(d, rate, w, ch), cs, dict(sr=rate + 3, sw=(1 if w != 1 else 2), ch=ch + 2))
                if len(d) < 4000:
                    runs["stdin that is a real pipe fed in bursts"] = split_from_pipe_stdin(au, cs, d, r.choice([97, 251, 7, 33]))
                if float(cs["W"] / rate) == cs["aw"]:
                    p = cs["params"]
                    try:
                        rd = au.AudioReader(d, block_dur=cs["aw"], sr=rate, sw=w, ch=ch)
                        runs["AudioReader"] = [0, enc_regions(list(au.split(rd, energy_threshold=cs["eth"], use_channel=cs["uc"], **p)))]
                    except Exception as e:
                        runs["AudioReader"] = [1, exc_code(e)]

                class Bursty(io.RawIOBase):
                    """a pipe-like raw stream: each low-level read hands over at most `burst` bytes (a live producer)"""
                    def __init__(self, payload, burst):
                        self.p, self.i, self.burst = payload, 0, burst

                    def readable(self):
                        return True

                    def readinto(self, b):
                        k = min(len(b), self.burst, len(self.p) - self.i)
                        b[:k] = self.p[self.i:self.i + k]
                        self.i += k
                        return k
                burst = r.choice([1, 3, 7, 64])
                for nm, mk in (("stdin", lambda: io.BytesIO(d)), ("stdin fed in bursts of %d bytes" % burst, lambda: io.BufferedReader(Bursty(d, burst), buffer_size=max(16, burst)))):
                    class FakeStdin:
                        buffer = mk()
                    old = sys.stdin
                    sys.stdin = FakeStdin
                    try:
                        runs[nm] = impl_split(au, "-", cs)
                    finally:
                        sys.stdin = old
                # alias spellings: short names, and both given with conflicting values (the long name must win)
                base = dict(cs["params"])
                short = dict(base, aw=cs["aw"], eth=cs["eth"], uc=cs["uc"], sr=rate, sw=w, ch=ch)
                try:
                    runs["short aliases"] = [0, enc_regions(list(au.split(d, **short)))]
                except Exception as e:
                    runs["short aliases"] = [1, exc_code(e)]
                both = dict(base, analysis_window=cs["aw"], aw=cs["aw"] * 3, energy_threshold=cs["eth"], eth=cs["eth"] + 25, use_channel=cs["uc"], uc=("mix" if cs["uc"] != "mix" else None),
                            sampling_rate=rate, sr=rate + 1, sample_width=w, sw=(2 if w != 2 else 4), channels=ch, ch=ch + 1)
                try:
                    runs["both spellings, long must win"] = [0, enc_regions(list(au.split(d, **both)))]
                except Exception as e:
                    runs["both spellings, long must win"] = [1, exc_code(e)]
                # the same with the short spellings written FIRST in the call (the order of keywords must not matter)
                rev = dict(list(reversed(list(both.items()))))
                try:
                    runs["both spellings, short written first, long must win"] = [0, enc_regions(list(au.split(d, **rev)))]
                except Exception as e:
                    runs["both spellings, short written first, long must win"] = [1, exc_code(e)]
                # a long name given explicitly as None is still the long name: it wins over its alias (None is a meaningful value
                # for use_channel = any channel, max_read = no limit, validator = the energy validator)
                plain_kw = dict(base, analysis_window=cs["aw"], energy_threshold=cs["eth"], sampling_rate=rate, sample_width=w, channels=ch)
                for nm, kwn in (("max_read=None beside mr", dict(plain_kw, use_channel=cs["uc"], max_read=None, mr=0.0)),
                                ("validator=None beside val", dict(plain_kw, use_channel=cs["uc"], validator=None, val=(lambda frame: False)))):
                    try:
                        runs[nm] = [0, enc_regions(list(au.split(d, **kwn)))]
                    except Exception as e:
                        runs[nm] = [1, exc_code(e)]
                if cs["uc"] is None and ch > 1:
                    # use_channel=None (any channel) beside uc=<an index>: the result must be that of `any`
                    for idx in range(ch):
                        try:
                            runs["use_channel=None beside uc=%d" % idx] = [0, enc_regions(list(au.split(d, **dict(plain_kw, use_channel=None, uc=idx))))]
                        except Exception as e:
                            runs["use_channel=None beside uc=%d" % idx] = [1, exc_code(e)]
                # the validator alias: val alone, and validator + val with conflicting values
                try:
                    from auditok.util import AudioEnergyValidator as _AEV
                    good = _AEV(cs["eth"], w, ch, use_channel=cs["uc"])
                    never = (lambda frame: False)
                    base_kw = dict(base, analysis_window=cs["aw"], sampling_rate=rate, sample_width=w, channels=ch)
                    runs["validator given as val"] = [0, enc_regions(list(au.split(d, val=good, **base_kw)))]
                    runs["validator and val, long must win"] = [0, enc_regions(list(au.split(d, validator=good, val=never, **base_kw)))]
                except Exception as e:
                    runs["validator given as val"] = [1, exc_code(e)]
                mc = model_case(cs)
                for name, got in runs.items():
                    cases.append(mc); impl.append(got); meta.append({"container/spelling": name, **describe(cs)})
                # max_read = t  <=>  the first round(t*rate) samples (pre-sliced), long and short spelling
                t = r.choice([0.0, 0.5 / rate, 1.5 / rate, 2.5 / rate, len(d) / (w * ch * rate) / 2, 3 * cs["aw"], 100.0, r.uniform(0, len(d) / (w * ch * rate) + 0.01)])
                mxs = round(t * rate)
                round_cases.append(((72, [C.fhex_me(t), rate]), mxs))
                pre = d[:max(mxs, 0) * w * ch]
                for name, kw in (("max_read", dict(max_read=t)), ("mr", dict(mr=t)), ("max_read wins over mr", dict(max_read=t, mr=t / 2 + 1))):
                    got = impl_split(au, d, cs, kw)
                    cases.append(model_case(cs, mxs)); impl.append(got); meta.append({"container/spelling": name, "max_read": t, **describe(cs)})
                    ref = impl_split(au, pre, cs)
                    if viol is None and got != ref:
                        viol = {"what": "%s=%r gives different regions than splitting the first round(t*rate)=%d samples" % (name, t, mxs), **meta[-1], "audio_bytes": list(d)[:2000]}
                # the same limit through file containers, eager and lazy (the reader's last request is then shorter than a window)
                for name, inp, extra in (("raw lazy + max_read", raw_p, dict(large_file=True)), ("raw eager + max_read", raw_p, {}),
                                         ("wav lazy + max_read", wav_p, dict(large_file=True)), ("wav eager + max_read", wav_p, {})):
                    got = impl_split(au, inp, cs, dict(max_read=t), **extra)
                    cases.append(model_case(cs, mxs)); impl.append(got); meta.append({"container/spelling": name, "max_read": t, **describe(cs)})
                    if viol is None and got != ref:
                        viol = {"what": "split() through '%s' with max_read=%r differs from splitting the first round(t*rate)=%d samples of the same audio" % (name, t, mxs),
                                **meta[-1], "audio_bytes": list(d)[:2000]}
                # all containers agree with one another
                ref = runs["bytes"]
                for name, got in runs.items():
                    if viol is None and got != ref:
                        viol = {"what": "split() through '%s' differs from split() on the raw bytes (%d vs %d regions)" % (name, len(got[1]) if got[0] == 0 else -1, len(ref[1]) if ref[0] == 0 else -1),
                                **describe(cs), "audio_bytes": list(d)[:2000]}
        if prop == "C09":
            big = [(384000, 4, 8, 38400, [0, 1, 1, 1, 0, 1, 1, 0]), (48000, 2, 2, 4800, [0] * 40 + ([1] * 5 + [0] * 95) * (9 if quick else 10) + [1] * 6 + [0] * 4)]
            for bi, (rate, w, ch, W, pat) in enumerate(big):
                loud = {2: 3000, 4: 300000}[w]
                one_on = struct.pack("<%d%s" % (W * ch, FMT[w]), *[(loud if (i // ch) % 2 == 0 else -loud) for i in range(W * ch)])
                one_off = bytes(W * ch * w)
                d = b"".join(one_on if on else one_off for on in pat)
                if bi == 1 and not quick:
                    d = d + one_off * 10
                raw_p = os.path.join(tmpd, "big%d.raw" % bi); wav_p = os.path.join(tmpd, "big%d.wav" % bi)
                open(raw_p, "wb").write(d)
                with wave.open(wav_p, "wb") as f:
                    f.setframerate(rate); f.setsampwidth(w); f.setnchannels(ch); f.writeframes(d)
                cs = dict(rate=rate, w=w, ch=ch, W=W, aw=W / rate, data=d, pattern="large", eth={2: 50, 4: 90}[w], uc=None,
                          params={"min_dur": W / rate, "max_dur": 50 * W / rate, "max_silence": 0, "drop_trailing_silence": False, "strict_min_dur": False})

                def brief(x):
                    return x if x[0] else [0, [(C.me_float(q[1]), len(q[0])) for q in x[1]]]
                ref = impl_split(au, d, cs)
                t = (len(pat) - 1.5) * W / rate
                pre = d[:round(t * rate) * w * ch]
                ref_mr = impl_split(au, pre, cs)
                for name, inp, extra, kwx, want in (("large raw file, lazy", raw_p, dict(large_file=True), None, ref), ("large raw file, eager", raw_p, {}, None, ref),
                                                    ("large wav file, eager", wav_p, {}, None, ref), ("large wav file, lazy", wav_p, dict(large_file=True), None, ref),
                                                    ("large wav file, eager, max_read", wav_p, {}, dict(max_read=t), ref_mr),
                                                    ("large raw file, lazy, max_read", raw_p, dict(large_file=True), dict(max_read=t), ref_mr)):
                    got = impl_split(au, inp, cs, kwx, **extra)
                    if viol is None and got != want:
                        viol = {"what": "split() through '%s' (%d Hz, %d bytes x %d channels, window of %d samples, %d bytes of audio) gives %r, the same audio as bytes gives %r" % (
                            name, rate, w, ch, W, len(d), brief(got)[1][:6] if got[0] == 0 else got, brief(want)[1][:6] if want[0] == 0 else want),
                                "container": name, "rate": rate, "sw": w, "ch": ch, "window_samples": W, "activity_pattern": pat if len(pat) < 50 else "long", "max_read": (kwx or {}).get("max_read")}
                res.notes["large_container_bytes_%d" % bi] = len(d)
    finally:
        shutil.rmtree(tmpd, ignore_errors=True)
    uniq = {}
    for c in cases:
        uniq.setdefault(C.dumps(c), c)
    keys = list(uniq)
    uouts = dict(zip(keys, C.model_eval([uniq[k] for k in keys])))
    outs = [uouts[C.dumps(c)] for c in cases]
    mism = []
    for (rc, py), mo in zip(round_cases, C.model_eval([c for c, _ in round_cases])):
        if mo != [py]:
            mism.append(({"round(max_read*rate)": rc[1]}, py, mo))
    for (op, a), m, i, o in zip(cases, meta, impl, outs):
        o2 = enc_model(o, a[1], a[2], a[3])
        if i != o2:
            mism.append((m, i if i[0] else [0, i[1][:3]], o2 if o2[0] else [0, o2[1][:3]]))
    small = [(c, o) for c, o in zip(cases, outs) if len(C.dumps(c[1])) < 1500 and len(C.dumps(o)) < 1500]
    vm = C.vm_crosscheck([c for c, _ in small], [o for _, o in small], prop, 15)
    nreg = sum(len(o[1]) for o in outs if o[0] == 0)
    res.coverage.update({"evaluations": len(cases), "distinct_nontrivial": len({C.dumps(c[1][:13]) for c, o in zip(cases, outs) if o[0] == 0 and o[1]}),
                         "rule": ("seeded synthesized audio (burst/silence windows with energies far from the threshold, widths 1/2/4, 1-3 channels, rates 7..44100, 0..%d windows incl. a partial last window, windows of 1..8 samples incl. non-integer aw*rate), all five split parameters, both split() and AudioRegion.split(); " % (25 if quick else 60) if prop == "C05" else
                                  "each seeded case is run through bytes, AudioRegion, wav eager/lazy, raw eager/lazy, raw by format alias, BufferAudioSource, AudioReader(block_dur=aw), replaced stdin, short aliases, both spellings with conflicting values, and max_read/mr against the pre-sliced input; ") + "every run must equal the model (bytes, bit-exact start/end/duration, parameters); non-trivial = distinct case with at least one region (%d regions in all)" % nreg,
                         "samples": [{"case": meta[1], "model": outs[1] if len(C.dumps(outs[1])) < 3000 else "large"}, {"case": meta[-1]}],
                         "vm_compute_crosschecked": vm, "correspondence_mismatches": len(mism), "errors": sum(1 for o in outs if o[0] == 1)})
    if tie is not None:
        res.coverage["tie_translation"] = tie["detail"][:300]
    if viol:
        res.add_violation(viol["what"], viol)
    elif tie is not None and not tie["ok"] and not mism:
        res.tie_undischarged("translation tie broken: " + tie["detail"][:700] + " -- the correspondence (bytes and bit-exact times) agrees everywhere and the statement's oracle found no failing input",
                             {"no_longer_checks": "TieTimes.v" if prop == "C05" else "TieAlias.v", "tie_detail": tie["detail"]})
    elif mism:
        m, i, o = mism[0]
        res.add_violation("model and implementation differ on %r; the statement's own oracle found no failing input" % (m,),
                          {"no_longer_checks": "correspondence Split/Split.v split_energy (op 70)", "case": m, "impl": i, "model": o}, no_input=True)
    return res.finish(proof)
