"""C06: durations in seconds -> window counts. Coq theorems in
Split/DurationProofs.v (accept/reject characterisation, millisecond grid by
reflection) + a per-run sweep of further grid rows compiled in parallel +
bit-exact correspondence of _duration_to_nb_windows / split() with the
Flocq model."""
import math
import os
from fractions import Fraction
import shutil

from .. import common as C
from .tok import exc_code
from ..py2coq import misctie


def grid_sweep(rows, amax, tag):
    """Compile `grid_row_ok amax b = true` for every b in rows (vm_compute reflection), 16 files in parallel."""
    d = os.path.join(C.TMP, "grid_%s_%d" % (tag, os.getpid()))
    os.makedirs(d, exist_ok=True)
    try:
        files = []
        for b in rows:
            f = os.path.join(d, "Row%d.v" % b)
            open(f, "w").write(
                "From Coq Require Import ZArith.\nFrom AV Require Import Split.Duration Split.DurationProofs.\nOpen Scope Z_scope.\n"
                "Theorem row : grid_row_ok %d %d = true.\nProof. vm_compute. reflexivity. Qed.\n"
                "Theorem row_meaning : forall a, 0 <= a <= %d -> nbw (ms a) (ms %d) RCeil (Some eps_neg) = Model.Ok (zceil a %d) /\\ nbw (ms a) (ms %d) RFloor (Some eps_pos) = Model.Ok (zfloor a %d).\n"
                "Proof. exact (C06_grid_row_meaning %d %d row). Qed.\n" % (amax, b, amax, b, b, b, b, amax, b))
            files.append(f)
        cmd = "ls %s/Row*.v | xargs -P %d -n 1 sh -c 'coqc -Q %s AV -w none \"$0\" > \"$0.log\" 2>&1 || echo FAIL \"$0\"'" % (d, C.NCPU, C.COQ)
        rc, out = C.sh(["bash", "-c", cmd], timeout=7200)
        failed = [l.split()[-1] for l in out.splitlines() if l.startswith("FAIL")]
        details = ""
        if failed:
            details = open(failed[0] + ".log").read()[-600:]
        return [int(os.path.basename(f)[3:-2]) for f in failed], details
    finally:
        shutil.rmtree(d, ignore_errors=True)


def exact_count(d, wq, up):
    """ceil (up) or floor of d / w in exact arithmetic; near-integers count as the integer; None = not judged"""
    q = Fraction(d) / wq
    n = round(q)
    dist = abs(q - n)
    if dist <= Fraction(5, 10 ** 11):
        return int(n)
    if dist < Fraction(1, 10 ** 6):
        return None
    return int(math.ceil(q)) if up else int(math.floor(q))


def run(prop, tier):
    res = C.Result(prop, tier)
    proof = C.proof_step(["Props/C06.v"])
    proof["trusted"] = [
        "model Split/Duration.v written by hand from core.py; _duration_to_nb_windows, _EPSILON and the program slice of split() that derives the window counts (sign checks, window and block-size checks, the three conversions with their rounding function and epsilon, the clamp of min_length, the two admissibility checks) are translated from /repo on every run (harness/py2coq/misc.py, groups dur and split) and proved equal to Duration.nbw / split_params / split_params_reader for all float inputs (TieDur.v, TieSplit.v); the construction of the AudioReader inside split() is represented in the slice by the block-size test it performs (by hand) and tied by bit-exact correspondence",
        "Flocq 4.1 binary_float 53 1024 (Bdiv, Bplus, Bmult, mode_NE) as the semantics of Python float arithmetic; floor/ceil/int/round defined on (mantissa, exponent) in Z",
        "vm_compute reflection for the grid rows (finite domain stated in each theorem)",
        "extraction (ExtrOcamlBasic only) + OCaml driver, cross-checked by vm_compute on a sample",
    ]
    au = C.import_auditok()
    import auditok.core as core
    quick = tier == "quick"
    r = C.rng("C06")
    # ---- per-run grid sweep (additional proof obligations)
    rows = [1, 2, 5, 7, 13, 25, 30, 33, 40, 64, 100, 125, 160, 200, 250, 500] if quick else list(range(1, 201))
    amax = 600 if quick else 5000
    failed, details = grid_sweep(rows, amax, tier)
    tie = misctie.tie_group("dur")
    tie_s = misctie.tie_group("split")
    proof["tie_obligations"] = ["grid row b=%d ms, durations 0..%d ms" % (b, amax) for b in rows] + tie["obligations"] + tie_s["obligations"]
    proof["undischarged"] = ["grid row b=%d" % b for b in failed] + ([] if tie["ok"] else tie["obligations"]) + ([] if tie_s["ok"] else tie_s["obligations"])
    if not tie_s["ok"]:
        tie = {"ok": False, "detail": (tie["detail"] if not tie["ok"] else "") + " " + tie_s["detail"], "obligations": tie["obligations"] + tie_s["obligations"]}
    viol = None
    cases, impl, meta = [], [], []
    # ---- _duration_to_nb_windows, ms grid (exact oracle) + random doubles (bit-exact with the model)
    # (a private helper: when a refactoring has removed or reshaped it, the same counts are observed through split() below)
    helper = getattr(core, "_duration_to_nb_windows", None)
    eps = getattr(core, "_EPSILON", None)
    try:
        import inspect
        helper_ok = callable(helper) and isinstance(eps, float) and len(inspect.signature(helper).parameters) == 4
    except Exception:
        helper_ok = False
    res.notes["private_helper_exercised_directly"] = helper_ok
    grid_b = [1, 5, 10, 20, 30, 50, 100, 200, 3, 7, 11] if quick else list(range(1, 201, 1))
    grid_a = range(0, 3001 if quick else 5001, 1 if not quick else 1)
    for b in (grid_b if helper_ok else []):
        w = b / 1000
        for a in (grid_a if b in (10, 50) or not quick else range(0, 3001, 7)):
            d = a / 1000
            c = core._duration_to_nb_windows(d, w, math.ceil, -eps)
            f = core._duration_to_nb_windows(d, w, math.floor, eps)
            if viol is None and (c != -((-a) // b) or f != a // b):
                viol = {"what": "duration %r s with window %r s: counts ceil=%d floor=%d, exact ceil(%d/%d)=%d floor=%d" % (d, w, c, f, a, b, -((-a) // b), a // b),
                        "duration": d, "window": w}
    n_grid = sum(1 for _ in grid_b) * 400
    for _ in range((4000 if quick else 60000) if helper_ok else 0):
        d = r.choice([r.uniform(0, 10), r.randint(0, 5000) / 1000, r.randint(1, 50) * r.choice([0.01, 0.05, 0.1, 0.02]), 0.0, -0.1, 1e-12, 5])
        w = r.choice([0.01, 0.05, 0.1, 0.02, 0.03, r.uniform(0.001, 0.5), 1 / 3, 0.0, -0.01, 0.016, 512 / 16000])
        if r.random() < 0.05:
            d, w = r.randint(0, 40), r.randint(1, 7)        # both given as ints
        rn = r.choice([0, 1]); ek = r.choice([0, 1, 2])
        try:
            got = [0, core._duration_to_nb_windows(d, w, math.ceil if rn else math.floor, [0, eps, -eps][ek])]
        except Exception as e:
            got = [1, exc_code(e)]
        cases.append((40, [C.fhex_me(d), C.fhex_me(w), rn, ek])); impl.append(got)
        meta.append({"_duration_to_nb_windows": [d, w, "ceil" if rn else "floor", [0, eps, -eps][ek]]})
    # ---- split(): derived counts observed at the tokenizer constructor, accept/reject
    captured = {}
    real_tok = core.StreamTokenizer

    class Spy(real_tok):
        def __init__(self, validator, mn, mx, ms, **kw):
            captured["v"] = [mn, mx, ms]
            super().__init__(validator, mn, mx, ms, **kw)
    core.StreamTokenizer = Spy
    try:
        vals_d = [0.2, 5, 0.3, 0.07, 0.05, 0.01, 0.0, -1, 1e-12, 0.3, 0.1, 1, 2.5, 0.015, 0.049999, 0.15]
        for _ in range(3000 if quick else 40000):
            mind = r.choice(vals_d + [r.randint(1, 900) / 1000])
            maxd = r.choice([5, 1, 0.5, 0.3, 0.1, 0.05, 0, -2, r.randint(1, 5000) / 1000])
            sil = r.choice([0.3, 0, 0.05, 0.1, -0.01, 0.29, 1, r.randint(0, 600) / 1000])
            aw = r.choice([0.05, 0.01, 0.1, 0.02, 0.03, 0, -0.1, 1e-5, 0.0625, r.randint(1, 200) / 1000])
            rate = r.choice([10, 100, 8000, 16000, 44100])
            if r.random() < 0.3 and aw > 0:
                # durations that are whole multiples of the window (quotients that are integers up to float noise)
                mind = r.randint(1, 6) * aw; maxd = r.randint(1, 12) * aw; sil = r.randint(0, 5) * aw
            elif r.random() < 0.12:
                # whole numbers of seconds given as Python ints (or bools), window included: 3 s with a 2 s window is still ceil(3/2) = 2 windows
                mind = r.choice([r.randint(1, 7), True]); maxd = r.randint(1, 12); sil = r.choice([r.randint(0, 4), False])
                aw = r.randint(1, 3); rate = r.choice([1, 2, 10])
            use_reader = r.random() < 0.25
            captured.clear()
            if use_reader:
                W = r.choice([1, 2, 5, 80, 160, 441, 800])
                # the reader's window is what it actually delivers: block_size / rate -- also when the requested duration is not a whole
                # number of samples, and also when the reader overlaps its windows (hop_dur says where windows start, not how long they are)
                shape = r.random()
                rkw = {}
                bd_req = W / rate
                if shape < 0.25:
                    bd_req = (W + r.choice([0.5, 0.25, 0.9])) / rate
                elif shape < 0.5 and W > 1:
                    rkw["hop_dur"] = r.randint(1, W - 1) / rate
                rd = au.AudioReader(b"\0" * 40, block_dur=bd_req, sr=rate, sw=1, ch=1, **rkw)
                W = rd.block_size
                case = (42, [C.fhex_me(mind), C.fhex_me(maxd), C.fhex_me(sil), W, rate])
                # an analysis_window keyword given next to an AudioReader input has no say: w is the reader's block duration
                extra = {}
                if r.random() < 0.5:
                    extra[r.choice(["analysis_window", "aw"])] = r.choice([0.05, 0.01, 0.1, 0.02, 0.2, 0.5, 2 * W / rate, W / rate / 2, r.randint(1, 200) / 1000])
                call = lambda: list(au.split(rd, min_dur=mind, max_dur=maxd, max_silence=sil, **extra))
            else:
                case = (41, [C.fhex_me(mind), C.fhex_me(maxd), C.fhex_me(sil), C.fhex_me(aw), rate])
                call = lambda: list(au.split(b"\0" * 40, min_dur=mind, max_dur=maxd, max_silence=sil, analysis_window=aw, sr=rate, sw=1, ch=1))
            try:
                call()
                got = [0, captured["v"] + [W if use_reader else int(aw * rate)]]
            except Exception as e:
                got = [1, exc_code(e)]
            # the statement's unconditional rejections, evaluated on the implementation
            must_reject = mind <= 0 or maxd <= 0 or sil < 0 or ((aw <= 0 or int(aw * rate) == 0) and not use_reader)
            if viol is None and must_reject and got != [1, 1]:
                viol = {"what": "split(min_dur=%r, max_dur=%r, max_silence=%r, %s) %s; the statement requires ValueError for non-positive min_dur/max_dur/analysis_window, negative max_silence or a window shorter than one sample" % (
                    mind, maxd, sil, ("AudioReader input with block of %d samples at %d Hz%s" % (W, rate, "".join(", %s=%r" % kv for kv in extra.items()))) if use_reader else "analysis_window=%r, sampling_rate=%d" % (aw, rate),
                    "was accepted (window counts %r)" % (got[1],) if got[0] == 0 else "raised error code %r" % (got[1],)),
                        "min_dur": mind, "max_dur": maxd, "max_silence": sil, "analysis_window": None if use_reader else aw, "rate": rate, "AudioReader_input": use_reader}
            # the statement's window counts, in exact rational arithmetic on the values given (w = the reader's block duration
            # for an AudioReader input, the analysis_window argument otherwise); quotients within 5e-11 of an integer count as
            # that integer, quotients farther than 1e-6 from every integer are exact ceil / floor, the band between is not judged
            if viol is None and not must_reject:
                wq = Fraction(W, rate) if use_reader else Fraction(aw)
                exp = [exact_count(mind, wq, True), exact_count(maxd, wq, False), exact_count(sil, wq, False)]
                if None not in exp:
                    exp[0] = max(exp[0], 1)
                    reject = exp[0] > exp[1] or exp[2] >= exp[1]
                    if reject and got[0] == 0:
                        viol = {"what": "split(min_dur=%r, max_dur=%r, max_silence=%r, window %s s) was accepted with window counts %r, but min_dur needs %d window(s), max_dur allows %d and max_silence spans %d: the statement requires ValueError" % (
                            mind, maxd, sil, float(wq), got[1][:3], exp[0], exp[1], exp[2])}
                    elif not reject and got[0] == 1:
                        viol = {"what": "split(min_dur=%r, max_dur=%r, max_silence=%r, window %s s) raised error code %r although the window counts %r are admissible" % (
                            mind, maxd, sil, float(wq), got[1], exp)}
                    elif not reject and got[1][:3] != exp:
                        viol = {"what": "split(min_dur=%r, max_dur=%r, max_silence=%r, window %s s%s) derives (min, max, max_silence) = %r windows, the statement gives ceil/floor/floor = %r" % (
                            mind, maxd, sil, float(wq), (", AudioReader input" + "".join(" with keyword %s=%r" % kv for kv in extra.items())) if use_reader else ", analysis_window argument", got[1][:3], exp)}
                    if viol is not None:
                        viol.update({"min_dur": mind, "max_dur": maxd, "max_silence": sil, "analysis_window": None if use_reader else aw, "rate": rate, "AudioReader_input": use_reader, "extra_keywords": extra if use_reader else {}})
            cases.append(case); impl.append(got)
            meta.append({"split": {"min_dur": mind, "max_dur": maxd, "max_silence": sil, "analysis_window": (W / rate if use_reader else aw), "rate": rate, "AudioReader_input": use_reader}})
    finally:
        core.StreamTokenizer = real_tok
    # ---- "reported once it spans ceil(min_dur/w) windows ... a shorter final window at end of stream": an input that IS the burst,
    # exactly as long as min_dur, one window shorter, or completed by a partial last window -- as bytes, as an AudioRegion, through
    # the method, alone and followed by silence
    n_boundary = 0
    for _ in range(120 if quick else 1500):
        rate = r.choice([100, 1000, 8000, 16000, 22050, 44100, 48000])
        W = r.choice([1, 2, 7, 10, 80, 160, 441])
        aw = W / rate
        if int(aw * rate) != W:
            continue
        k = r.randint(1, 6)
        mind = r.choice([k * aw, k * W / rate, (k - 0.5) * aw, round(k * W / rate, 6)])
        nmin = exact_count(mind, Fraction(W, rate), True)
        if nmin is None or mind <= 0:
            continue
        nmin = max(nmin, 1)
        shapes = [nmin * W, (nmin - 1) * W, nmin * W + 1]
        if W > 1:
            shapes.append((nmin - 1) * W + r.randint(1, W - 1))
        n = r.choice(shapes)
        tail = r.choice([0, 0, W, 2 * W + 1])
        data = b"\x10\x27" * n + b"\0\0" * tail
        nw = -(-n // W)
        want = [[0, 2 * min(nw * W, n + tail)]] if (nw >= nmin and n > 0) else []      # (windows are aligned on the input: the last one may take in silent samples)
        kw = dict(min_dur=mind, max_dur=(nmin + 4) * aw, max_silence=0, analysis_window=aw)
        for how in ("bytes", "AudioRegion", "AudioRegion.split", "AudioRegion carrying a start"):
            try:
                if how == "bytes":
                    regs = list(au.split(data, sr=rate, sw=2, ch=1, **kw))
                elif how == "AudioRegion":
                    regs = list(au.split(au.AudioRegion(data, rate, 2, 1), **kw))
                elif how == "AudioRegion.split":
                    regs = list(au.AudioRegion(data, rate, 2, 1).split(**kw))
                else:
                    regs = list(au.split(au.AudioRegion(data, rate, 2, 1, 3.5), **kw))
                got = [[int(round(x.start * rate)) * 2, len(x.data)] for x in regs]
            except Exception as e:
                got = "raised %s" % type(e).__name__
            n_boundary += 1
            if viol is None and got != want:
                viol = {"what": "split() of a %d-sample loud burst%s at %d Hz (%s input), window %d samples, min_dur=%r (= %d windows): regions (byte offset, bytes) %r, the statement requires %r "
                                "(the burst spans %d window(s), the last one %s)" % (n, " followed by %d silent samples" % tail if tail else " that is the whole input", rate, how, W, mind, nmin, got, want,
                                                                                  nw, "partial" if n % W else "full"),
                        "rate": rate, "window_samples": W, "min_dur": mind, "burst_samples": n, "silent_tail_samples": tail, "input": how, "parameters": {k_: repr(v_) for k_, v_ in kw.items()}}
    res.notes["boundary_bursts"] = n_boundary
    outs = C.model_eval(cases)
    mism = [(m, i, o) for m, i, o in zip(meta, impl, outs) if i != o and not (i[0] == 1 and o[0] == 1 and {i[1], o[1]} <= {1, 9})]
    vm = C.vm_crosscheck(cases, outs, "C06", 25)
    acc = sum(1 for o in outs if o[0] == 0)
    res.coverage.update({"evaluations": len(cases) + n_grid + n_boundary, "distinct_nontrivial": len({C.dumps(c) for c, o in zip(cases, outs) if o[0] == 0 and o[1] != 0}),
                         "rule": "bit-exact comparison with the Flocq model of _duration_to_nb_windows on seeded random doubles (incl. quotients not representable in binary) and of split()'s derived (min_length, max_length, max_silence, block size) or ValueError, for bytes and AudioReader inputs (%d accepted, %d rejected); exact integer oracle ceil/floor on the millisecond grid; non-trivial = distinct accepted case with a non-zero result" % (acc, len(outs) - acc),
                         "samples": [{"case": meta[3], "model": outs[3]}, {"case": meta[-3], "model": outs[-3]}],
                         "vm_compute_crosschecked": vm, "correspondence_mismatches": len(mism), "tie_translation": tie["detail"][:300],
                         "grid_rows_proved_this_run": len(rows) - len(failed), "grid_amax_ms": amax})
    if viol:
        res.add_violation(viol["what"], viol)
    elif not tie["ok"] and not mism and not failed:
        res.tie_undischarged("translation tie broken: " + tie["detail"][:700] + " -- the bit-exact correspondence agrees everywhere and the exact integer oracle found no failing input",
                             {"no_longer_checks": "TieDur.v / TieSplit.v", "tie_detail": tie["detail"]})
    elif mism or failed or not tie["ok"]:
        what = []
        if not tie["ok"]:
            what.append("translation tie broken: " + tie["detail"][:500])
        if failed:
            what.append("grid rows no longer proved: %r (%s)" % (failed[:5], details[-200:]))
        if mism:
            what.append("model and implementation differ on %r (impl %r, model %r)" % mism[0])
        res.add_violation("; ".join(what) + "; the exact integer oracle on the ms grid found no failing input",
                          {"no_longer_checks": "correspondence Split/Duration.v (ops 40-42) / grid rows", "first_mismatch": [list(x) for x in mism[:2]]}, no_input=True)
    return res.finish(proof)
