"""C16 (region slicing) and C17 (region algebra): Coq theorems in
Audio/RegionProofs.v + correspondence of the real AudioRegion with the
extracted model (exhaustive small scope for slicing, random operation
sequences for the algebra)."""
import sys
import itertools
import warnings

from .. import common as C
from .tok import exc_code

FORMATS = [(1, 1), (2, 1), (1, 2), (2, 2), (4, 3)]


def mk_bytes(n, w, ch, r=None):
    size = n * w * ch
    if r is None:
        return bytes((7 * i + 3) % 256 for i in range(size))
    return bytes(r.randrange(256) for _ in range(size))


def reg_tree(data, sr, w, ch):
    return [list(data), sr, w, ch]


def opt(x):
    return [] if x is None else [x]


def optf(x):
    return [] if x is None else [C.fhex_me(x)]


def impl_region(t):
    from auditok import AudioRegion
    return AudioRegion(bytes(t[0]), t[1], t[2], t[3])


def out_region(r):
    return [list(r.data), r.sampling_rate, r.sample_width, r.channels]


def run_C16(res, tier):
    from auditok import AudioRegion
    quick = tier == "quick"
    r = C.rng("C16")
    cases, impl, meta = [], [], []
    viol = None
    maxL = 6 if quick else 8
    # ---- sample slicing, exhaustive bounds
    for L in range(0, maxL + 1):
        for (w, ch) in FORMATS:
            data = mk_bytes(L, w, ch)
            reg = AudioRegion(data, 10, w, ch)
            bps = w * ch
            smp = [data[i * bps:(i + 1) * bps] for i in range(L)]
            if len(reg) != L or abs(reg.duration - L / 10) > 1e-12:
                viol = viol or {"what": "len()/duration wrong for a %d-sample region: len=%r duration=%r" % (L, len(reg), reg.duration),
                                "length": L, "format": [w, ch]}
            bounds = list(range(-L - 3, L + 4)) + [None]
            for a in bounds:
                for b in bounds:
                    got = reg[a:b]
                    cases.append((10, [reg_tree(data, 10, w, ch), opt(a), opt(b)]))
                    impl.append(out_region(got))
                    meta.append({"length": L, "format(sw,ch)": [w, ch], "slice": [a, b]})
                    want = b"".join(smp[a:b])
                    if viol is None and (got.data != want or (got.sr, got.sw, got.ch) != (10, w, ch)):
                        viol = {"what": "region[%r:%r] of a %d-sample (sw=%d,ch=%d) region is not the Python slice of its samples" % (a, b, L, w, ch),
                                "length": L, "format(sw,ch)": [w, ch], "slice": [a, b], "impl_bytes": list(got.data), "python_slice_bytes": list(want)}
    # ---- huge bounds
    for _ in range(200 if quick else 2000):
        L = r.randint(0, 9); w, ch = r.choice(FORMATS)
        data = mk_bytes(L, w, ch, r)
        reg = AudioRegion(data, 8000, w, ch)
        a = r.choice([None, r.randint(-10**18, 10**18), r.randint(-12, 12)])
        b = r.choice([None, r.randint(-10**18, 10**18), r.randint(-12, 12)])
        got = reg[a:b]
        cases.append((10, [reg_tree(data, 8000, w, ch), opt(a), opt(b)]))
        impl.append(out_region(got))
        meta.append({"length": L, "format(sw,ch)": [w, ch], "slice": [a, b]})
    # len() is the sample count and duration is len / rate - also for sizes n where (n / rate) * rate is not n in binary64,
    # and for slices of such regions
    for rate in (8000, 16000, 44100, 48000, 22050, 11025, 100, 7):
        frag = [n for n in range(1, 2200) if int(n / rate * rate) != n][:6] + [n for n in range(1, 2200) if int(n / rate * rate) != n][-3:]
        for n in frag:
            for (w, ch) in ((1, 1), (2, 2)):
                reg = AudioRegion(bytes(n * w * ch), rate, w, ch)
                sub = reg[0:n]
                tail = reg[-n:]
                for what_, x in (("the region", reg), ("region[0:%d]" % n, sub), ("region[-%d:]" % n, tail)):
                    if viol is None and (len(x) != n or x.duration != n / rate or len(x.data) != n * w * ch):
                        viol = {"what": "%s of %d samples at %d Hz (sw=%d, ch=%d): len() = %r, duration = %r, expected %d and %r" % (what_, n, rate, w, ch, len(x), x.duration, n, n / rate),
                                "samples": n, "rate": rate, "format(sw,ch)": [w, ch]}
    # large regions (beyond 64 KiB): slicing against Python slicing of the sample sequence, judged on the bytes
    for (n, sr_, w, ch) in ((20000, 16000, 2, 2), (70000, 8000, 1, 1), (40000, 44100, 4, 3)):
        bps_ = w * ch
        big = bytes((i * 31 + (i >> 8)) % 251 for i in range(n * bps_))
        reg = AudioRegion(big, sr_, w, ch)
        bounds = [None, 0, 1, n // 4, n // bps_, n // bps_ + 1, n - 1, n, n + 5, -1, -n // 4, -n, -n - 3, 65536 // bps_, 65536, 5000]
        for a in bounds:
            for b in bounds:
                got = reg[a:b]
                exp = big[slice(a, b).indices(n)[0] * bps_:max(slice(a, b).indices(n)[0], slice(a, b).indices(n)[1]) * bps_]
                if viol is None and (got.data != exp or len(got) != len(exp) // bps_):
                    viol = {"what": "region[%r:%r] of a %d-sample (sw=%d,ch=%d) region returns %d samples, Python slicing of the sample sequence gives %d%s" % (
                        a, b, n, w, ch, len(got.data) // bps_, len(exp) // bps_, "" if len(got.data) != len(exp) else " (same length, other content)"),
                            "samples": n, "format(sw,ch)": [w, ch], "slice": [a, b]}
    # very long regions: millisecond bounds beyond 2^31 ms (24.8 days) must agree with the seconds view
    days = AudioRegion(bytes(21700000), 10, 1, 1)
    for (a, b) in ((2147484000, 2147486000), (2147483000, 2147484500), (None, 2147483648), (2150000000, None), (-2160000000, -2159990000)):
        m = days.ms[a:b]
        s_ = days.sec[(None if a is None else a / 1000):(None if b is None else b / 1000)]
        if viol is None and m.data != s_.data:
            viol = {"what": "milliseconds view [%r:%r] of a 25-day region returns %d samples, the seconds view at t/1000 returns %d" % (a, b, len(m), len(s_)),
                    "rate": 10, "samples": len(days), "ms_slice": [a, b]}
    del days
    n_samples_cases = len(cases)
    # ---- seconds / milliseconds views
    rates = [7, 10, 441, 16000]
    for sr in rates:
        for L in ([0, 5, 14] if quick else [0, 1, 5, 14, 33]):
            w, ch = r.choice(FORMATS)
            data = mk_bytes(L, w, ch, r)
            reg = AudioRegion(data, sr, w, ch)
            ts = [None, 0.0, 0.5 / sr, 1.5 / sr, 2.5 / sr, 1.0 / sr, -1.5 / sr, -2.5 / sr, L / sr, (L + 2) / sr, -(L + 2) / sr, 0.1, 0.25, 1e-9, -1e-9]
            ts += [r.uniform(-1.5 * L / sr - 0.01, 1.5 * L / sr + 0.01) for _ in range(6 if quick else 20)]
            for a in ts:
                for b in ts:
                    got = reg.sec[a:b]
                    cases.append((11, [reg_tree(data, sr, w, ch), optf(a), optf(b)]))
                    impl.append([out_region(got)])
                    meta.append({"rate": sr, "length": L, "sec_slice": [a, b]})
                    if viol is None and a is not None and b is not None:
                        # within one sample period of the requested instants
                        sa, sb = int(a * sr), round(b * sr)
                        if abs(sa - a * sr) >= 1 or abs(sb - b * sr) > 0.5 + 1e-9:
                            viol = {"what": "seconds-view bounds farther than one sample from the requested instants", "rate": sr, "sec_slice": [a, b]}
            mss = [None, 0, 1, -1, 100, 250, -250, 1000, int(1000 * L / sr), int(1000 * L / sr) + 7, 143, -143] + [r.randint(-3000, 3000) for _ in range(5)]
            for a in mss:
                for b in mss:
                    got = reg.ms[a:b]
                    cases.append((12, [reg_tree(data, sr, w, ch), opt(a), opt(b)]))
                    impl.append([out_region(got)])
                    meta.append({"rate": sr, "length": L, "ms_slice": [a, b]})
                    if viol is None:
                        ref = reg.sec[(0 if a is None else a) / 1000:(None if b is None else b / 1000)]
                        if ref.data != got.data:
                            viol = {"what": "milliseconds view differs from the seconds view at t/1000", "rate": sr, "ms_slice": [a, b]}
    # ---- type errors
    reg = AudioRegion(mk_bytes(6, 2, 1), 10, 2, 1)
    type_cases = [("samples", lambda: reg[0:4:2]), ("samples", lambda: reg[0.5:3]), ("samples", lambda: reg[1:2.0]), ("samples", lambda: reg["a":3]),
                  ("samples", lambda: reg[3]), ("sec", lambda: reg.sec[0:1:1]), ("sec", lambda: reg.sec["0":1]), ("sec", lambda: reg.sec[1]),
                  ("ms", lambda: reg.ms[0.5:100]), ("ms", lambda: reg.ms[0:100.0]), ("ms", lambda: reg.ms[0:100:2]), ("ms", lambda: reg.ms[5])]
    from fractions import Fraction
    # wrong-typed bounds that happen to be falsy (zero or empty) are wrong-typed all the same
    for bad_v in (0.0, -0.0, "", b"", Fraction(0), [], ()):
        for view, kind in ((reg, "samples"), (reg.ms, "ms")) + (((reg.sec, "sec"),) if not isinstance(bad_v, float) else ()):
            type_cases.append((kind, (lambda v=view, x=bad_v: v[x:3])))
            type_cases.append((kind, (lambda v=view, x=bad_v: v[0:x])))
    for kind, f in type_cases:
        try:
            f()
            viol = viol or {"what": "a step or a bound of the wrong type did not raise TypeError (%s view)" % kind}
        except TypeError:
            pass
        except Exception as e:
            viol = viol or {"what": "wrong exception %s instead of TypeError (%s view)" % (type(e).__name__, kind)}
    # a view is a way of slicing its region: it stays usable when it is all the caller kept
    import gc
    for w_, ch_ in FORMATS[:3]:
        d_ = mk_bytes(40, w_, ch_)

        def views():
            tmp = AudioRegion(d_, 10, w_, ch_)
            return tmp.seconds, tmp.millis
        sv, mv = views()
        gc.collect()
        ref = AudioRegion(d_, 10, w_, ch_)
        try:
            if viol is None and (sv[0.5:2.0].data != ref.seconds[0.5:2.0].data or mv[500:2000].data != ref.millis[500:2000].data):
                viol = {"what": "a seconds / milliseconds view kept without its region slices differently from the view of an identical region", "format": [w_, ch_]}
        except Exception as e:
            viol = viol or {"what": "slicing through a seconds / milliseconds view whose region is no longer referenced elsewhere raised %s: %s" % (type(e).__name__, e), "format": [w_, ch_]}
    # a view slices the region it was taken from, whatever other regions' views were looked up in the meantime
    for w_, ch_ in FORMATS[:3]:
        ra, rb = AudioRegion(mk_bytes(70, w_, ch_), 10, w_, ch_), AudioRegion(mk_bytes(30, w_, ch_, r), 10, w_, ch_)
        try:
            va, ma = ra.seconds, ra.millis
            vb, mb = rb.seconds, rb.millis          # looked up after a's, used before
            got = [vb[0.5:2.0].data, mb[500:2000].data, va[1.5:4.2].data, ma[1500:4200].data, ra.seconds[:rb.seconds.len if hasattr(rb.seconds, "len") else 3.0].data,
                   ra.sec[1.0:].data, ra.s[:2.0].data, ra.ms[1000:].data]
            want = [rb[5:20].data, rb[5:20].data, ra[15:42].data, ra[15:42].data, ra[0:30].data, ra[10:].data, ra[:20].data, ra[10:].data]
            if viol is None and got != want:
                k_ = [g == w__ for g, w__ in zip(got, want)].index(False)
                viol = {"what": "with the views of two regions (70 and 30 samples at 10 Hz) looked up one after the other, slice no. %d through a view (%s) holds %d bytes that are not those of its own region's samples" % (
                    k_, ["b.seconds[0.5:2.0]", "b.millis[500:2000]", "a.seconds[1.5:4.2]", "a.millis[1500:4200]", "a.seconds[:b's duration]", "a.sec[1.0:]", "a.s[:2.0]", "a.ms[1000:]"][k_], len(got[k_])),
                        "format": [w_, ch_]}
        except Exception as e:
            viol = viol or {"what": "slicing through views of two regions looked up alternately raised %s: %s" % (type(e).__name__, e), "format": [w_, ch_]}
    # whole numbers of seconds of any magnitude are clamped like any Python slice bound (int arithmetic: no float overflow)
    big = AudioRegion(mk_bytes(12, 2, 1), 16000, 2, 1)
    for a_, b_ in ((0, 10 ** 400), (2 ** 1024, None), (None, 10 ** 305), (-10 ** 400, 10 ** 400), (-10 ** 320, None), (None, -2 ** 1100), (10 ** 30, 10 ** 31), (0, 2 ** 64)):
        try:
            got = big.seconds[a_:b_]
            exp = big[(None if a_ is None else max(-13, min(13, a_))):(None if b_ is None else max(-13, min(13, b_)))]
            if viol is None and got.data != exp.data:
                viol = {"what": "seconds view [%s:%s] of a 12-sample region holds %d bytes, the clamped slice %d" % (str(a_)[:12] + ("..." if len(str(a_)) > 12 else ""), str(b_)[:12] + ("..." if len(str(b_)) > 12 else ""), len(got.data), len(exp.data))}
        except Exception as e:
            viol = viol or {"what": "seconds view with the whole-second bound(s) [%s...:%s...] (%s digits) raised %s instead of clamping like a Python slice" % (
                str(a_)[:8], str(b_)[:8], max(len(str(a_)), len(str(b_))), type(e).__name__)}
    outs = C.model_eval(cases)
    mism = [(m, i, o) for m, i, o in zip(meta, impl, outs) if i != o]
    vm = C.vm_crosscheck(cases[:n_samples_cases], outs[:n_samples_cases], "C16", 30)
    nontriv = len({C.dumps(o) for o in outs if o and (o[0] if isinstance(o[0], list) and o[0] and isinstance(o[0][0], int) else True)})
    res.coverage.update({"evaluations": len(cases) + len(type_cases), "distinct_nontrivial": len({C.dumps([c, o]) for c, o in zip(cases, outs) if C.dumps(o).count(",") > 4}),
                         "rule": "exhaustive: regions of 0..%d samples x formats %r x every (start, stop) in [-L-3, L+3] u {None}; random huge bounds (+-1e18); seconds and milliseconds views over rates %r on a grid of instants incl. half-sample ties and negatives; non-trivial = distinct case whose result is a non-empty region" % (maxL, FORMATS, rates),
                         "samples": [{"case": meta[1234 % len(meta)], "model_result": outs[1234 % len(outs)]}, {"case": meta[-5], "model_result": outs[-5]}],
                         "exhaustive": True, "vm_compute_crosschecked": vm, "correspondence_mismatches": len(mism), "type_error_cases": len(type_cases)})
    if viol:
        res.add_violation(viol["what"], viol)
    elif mism:
        m, i, o = mism[0]
        res.add_violation("model and implementation differ on %r (impl %r, model %r); the Python-slice oracle found no failing input" % (m, i, o),
                          {"no_longer_checks": "correspondence Audio/Region.v getitem/sec_getitem/ms_getitem (ops 10-12)", "case": m, "impl": i, "model": o}, no_input=True)


# ------------------------------------------------------------------ C17

def rand_exp(r, depth, npool):
    k = r.random()
    if depth <= 0 or k < 0.25:
        return [0, r.randrange(npool)]
    if k < 0.45:
        return [1, rand_exp(r, depth - 1, npool), rand_exp(r, depth - 1, npool)]
    if k < 0.55:
        return [2, rand_exp(r, depth - 1, npool), r.choice([0, 1, 2, 3, -1])]
    if k < 0.70:
        return [3, rand_exp(r, depth - 1, npool), [rand_exp(r, depth - 2, npool) for _ in range(r.randint(0, 3))]]
    if k < 0.82:
        n = r.randint(1, 6)
        return [4, rand_exp(r, depth - 1, npool), n, r.randrange(n)]
    if k < 0.9:
        sr = r.choice([10, 16, 8000]); w, ch = r.choice(FORMATS)
        return [5, C.fhex_me(r.choice([0, 0.05, 0.15, 0.25, 0.1, 1.0 / 3, r.uniform(0, 0.6)])), sr, w, ch]
    return [6, rand_exp(r, depth - 1, npool), opt(r.choice([None, -2, 0, 1, 3])), opt(r.choice([None, -1, 2, 5, 100]))]


class Mutated(Exception):
    pass


def eval_impl(pool, e, snap):
    """evaluate with real AudioRegion objects; after every operation check that no operand changed"""
    from auditok import AudioRegion, make_silence
    k = e[0]

    def check(*ops):
        for o in ops:
            # the snapshot keeps the operand alive, so that its id() cannot be reused by a later temporary
            if (bytes(o.data), o.sr, o.sw, o.ch) != snap.setdefault(id(o), (o, (bytes(o.data), o.sr, o.sw, o.ch)))[1]:
                raise Mutated("an operand was altered by an operation")

    def same(a, b):
        return (a.sr, a.sw, a.ch) == (b.sr, b.sw, b.ch)
    if k == 0:
        return pool[e[1]]
    if k == 1:
        a, b = eval_impl(pool, e[1], snap), eval_impl(pool, e[2], snap)
        check(a, b); out = a + b; check(a, b)
        if not same(a, b):
            raise Mutated("concatenating regions with different audio parameters %r + %r did not raise AudioParameterError" % ((a.sr, a.sw, a.ch, len(a.data)), (b.sr, b.sw, b.ch, len(b.data))))
        return out
    if k == 2:
        a = eval_impl(pool, e[1], snap)
        check(a); out = a * e[2]; check(a); return out
    if k == 3:
        sep = eval_impl(pool, e[1], snap)
        others = [eval_impl(pool, x, snap) for x in e[2]]
        check(sep, *others); out = sep.join(others); check(sep, *others)
        if not all(same(sep, o) for o in others):
            raise Mutated("join of regions with different audio parameters did not raise AudioParameterError")
        return out
    if k == 4:
        a = eval_impl(pool, e[1], snap)
        check(a); ps = a / e[2]; check(a)
        return ps[e[3]]
    if k == 5:
        return make_silence(C.me_float(e[1]), e[2], e[3], e[4])
    if k == 6:
        a = eval_impl(pool, e[1], snap)
        check(a); out = a[(e[2][0] if e[2] else None):(e[3][0] if e[3] else None)]; check(a); return out
    if k == 7:
        return AudioRegion(bytes(e[1]), e[2], e[3], e[4])
    raise ValueError(k)


HUGE_DIV_SCRIPT = r"""
import json, sys
sys.path.insert(0, sys.argv[1])
from auditok import AudioRegion
out = None
for L, w, ch in ((1, 2, 1), (3, 1, 2), (10, 2, 2)):
    data = bytes((7 * i + 3) % 256 for i in range(L * w * ch))
    reg = AudioRegion(data, 8000, w, ch)
    for n in (10 ** 6, 2 ** 31, 10 ** 10, 2 ** 63, 2 ** 64, 10 ** 30):
        print(json.dumps({"at": [L, w, ch, str(n)]}), flush=True)
        try:
            ps = reg / n
            if len(ps) != L or b"".join(p.data for p in ps) != data:
                out = {"what": "dividing a %d-sample region by %d gives %d pieces, not %d one-sample pieces that sum to the original" % (L, n, len(ps), L), "samples": L, "format(sw,ch)": [w, ch], "n": str(n)}
        except BaseException as e:
            out = {"what": "dividing a %d-sample region by %d raised %s" % (L, n, type(e).__name__), "samples": L, "format(sw,ch)": [w, ch], "n": str(n)}
        if out:
            break
    if out:
        break
print(json.dumps({"result": out}), flush=True)
"""


def huge_divisors():
    import json
    import resource
    import subprocess

    def limit():
        resource.setrlimit(resource.RLIMIT_AS, (3 << 30, 3 << 30))
    last, result = None, "none"
    try:
        cp = subprocess.run([sys.executable, "-c", HUGE_DIV_SCRIPT, C.REPO], capture_output=True, text=True, timeout=60, preexec_fn=limit)
        lines = [json.loads(l) for l in cp.stdout.splitlines() if l.startswith("{")]
    except subprocess.TimeoutExpired as e:
        txt = e.stdout.decode() if isinstance(e.stdout, bytes) else (e.stdout or "")
        lines = [json.loads(l) for l in txt.splitlines() if l.startswith("{")]
        lines.append({"timeout": True})
    for l in lines:
        if "at" in l:
            last = l["at"]
        if "result" in l:
            result = l["result"]
    if result == "none":
        # the child did not reach the end: killed by the limits while dividing `last`
        if last is None:
            return None          # could not even start: not a statement about the code
        return {"what": "dividing a %d-sample region (sw=%d, ch=%d) by %s did not finish within 60 s and 3 GiB: the work must depend on min(n, len), not on n" % (last[0], last[1], last[2], last[3]),
                "samples": last[0], "format(sw,ch)": last[1:3], "n": last[3]}
    return result


def run_C17(res, tier):
    from auditok import AudioRegion, make_silence
    quick = tier == "quick"
    r = C.rng("C17")
    cases, impl, meta = [], [], []
    viol = None
    for it in range(1500 if quick else 15000):
        # pool with deliberately mixed parameters
        base = (r.choice([10, 16]), ) + r.choice(FORMATS)
        pool_t = []
        for _ in range(4):
            sr, w, ch = base
            if r.random() < 0.12:
                sr, w, ch = r.choice([(sr + 1, w, ch), (sr, 3 - w if w in (1, 2) else 2, ch), (sr, w, ch + 1)])
            pool_t.append(reg_tree(mk_bytes(r.randint(0, 5), w, ch, r), sr, w, ch))
        pool = [impl_region(t) for t in pool_t]
        e = rand_exp(r, 3, len(pool))
        cases.append((13, [pool_t, e]))
        meta.append({"pool": pool_t, "expression": e})
        try:
            got = eval_impl(pool, e, {})
            impl.append([0, out_region(got)])
        except Mutated as x:
            impl.append([2, str(x)])
            viol = viol or {"what": str(x), "pool": pool_t, "expression": e}
        except IndexError:
            impl.append([1, 3])
        except Exception as x:
            impl.append([1, exc_code(x)])
    # many channels / same frame size with different (width, channels): still a parameter mismatch
    wide = [(1, 16), (2, 8), (4, 4), (1, 8), (2, 4), (1, 9), (1, 1), (2, 16), (4, 8)]
    for (w1, c1) in wide:
        for (w2, c2) in wide:
            a = AudioRegion(bytes([1]) * (w1 * c1 * 4), 16000, w1, c1)
            b = AudioRegion(bytes([2]) * (w2 * c2 * 4), 16000, w2, c2)
            for how, fn in (("a + b", lambda: a + b), ("a.join([b, b])", lambda: a.join([b, b])), ("sum([a, b])", lambda: sum([a, b]))):
                try:
                    out = fn()
                    raised = False
                except Exception as x:
                    raised = exc_code(x)
                same = (w1, c1) == (w2, c2)
                if viol is None and (same and raised or (not same and raised != 5)):
                    viol = {"what": "%s with (sw=%d, ch=%d) and (sw=%d, ch=%d) at the same rate %s; regions that differ in width or channel count must raise AudioParameterError and equal ones must combine" % (
                        how, w1, c1, w2, c2, "raised error code %r" % raised if raised else "returned a region"), "formats": [[w1, c1], [w2, c2]]}
    # large joins and concatenations (tens of megabytes): exactly the byte-level interleaving
    sil = make_silence(0.5, 16000, 2, 1)
    parts = [AudioRegion(bytes([k % 250 + 1]) * (1 << 20), 16000, 2, 1) for k in range(36 if quick else 70)]
    joined = sil.join(parts)
    if viol is None and joined.data != sil.data.join(p.data for p in parts):
        viol = {"what": "joining %d regions of 1 MiB with a 0.5 s silence gives %d bytes, the byte-level interleaving has %d" % (
            len(parts), len(joined.data), len(sil.data.join(p.data for p in parts))), "regions": len(parts), "region_bytes": 1 << 20}
    total = sum(parts[:20])
    if viol is None and total.data != b"".join(p.data for p in parts[:20]):
        viol = {"what": "sum of 20 regions of 1 MiB is not their byte concatenation"}
    del joined, total, parts
    # division: every n from 1 to len+3, all pieces
    for L in range(1, 9 if quick else 14):
        for (w, ch) in FORMATS:
            data = mk_bytes(L, w, ch, r)
            reg = AudioRegion(data, 10, w, ch)
            for n in range(1, L + 4):
                ps = reg / n
                cases.append((14, [reg_tree(data, 10, w, ch), n]))
                impl.append([0, [out_region(p) for p in ps]])
                meta.append({"divide_samples": L, "format": [w, ch], "n": n})
                lens = [len(p) for p in ps]
                if viol is None and (len(ps) != min(n, L) or b"".join(p.data for p in ps) != data or max(lens) - min(lens) > 1
                                     or sum(ps) != reg or any(len(p.data) % (w * ch) for p in ps)):
                    viol = {"what": "dividing a %d-sample region by %d: pieces %r are not min(n,len) contiguous pieces differing by at most one sample that sum to the original" % (L, n, lens),
                            "samples": L, "format(sw,ch)": [w, ch], "n": n}
            for bad in (0, -1, 1.5, "2"):
                try:
                    reg / bad
                    viol = viol or {"what": "region / %r did not raise TypeError" % (bad,)}
                except TypeError:
                    pass
    # n far beyond the length (and beyond machine integers): still min(n, len) one-sample pieces.  Run in a child process under an
    # address-space limit and a time limit (work proportional to n instead of len would exhaust either)
    hv = huge_divisors()
    if hv and viol is None:
        viol = hv
    # equality
    for _ in range(300 if quick else 3000):
        w, ch = r.choice(FORMATS)
        d = mk_bytes(r.randint(0, 3), w, ch, r)
        a = reg_tree(d, 10, w, ch)
        b = r.choice([a, reg_tree(d, 11, w, ch), reg_tree(bytes(d[::-1]), 10, w, ch), reg_tree(d * (1 if w * ch > 1 else 1), 10, ch, w) if (len(d) % (w * ch) == 0) else a,
                      reg_tree(mk_bytes(len(d) // (w * ch), w, ch, r), 10, w, ch)])
        try:
            ra, rb = impl_region(a), impl_region(b)
        except Exception:
            continue
        cases.append((15, [a, b])); impl.append(1 if ra == rb else 0); meta.append({"eq": [a, b]})
        same = (ra.data == rb.data and ra.sr == rb.sr and ra.sw == rb.sw and ra.ch == rb.ch)
        if viol is None and ((ra == rb) != same or (ra != rb) == same):
            viol = {"what": "== disagrees with equality of bytes and audio parameters", "regions": [a, b]}
    # silence: round(d * rate) zero samples
    for _ in range(300 if quick else 3000):
        sr = r.choice([7, 10, 16, 441, 8000, 16000]); w, ch = r.choice(FORMATS)
        d = r.choice([0, 0.05, 0.15, 0.25, 0.35, 2.5 / sr, 3.5 / sr, 0.5 / sr, 1.0001, r.uniform(0, 0.01 + 30.0 / sr)])
        s = make_silence(d, sr, w, ch)
        cases.append((13, [[], [5, C.fhex_me(d), sr, w, ch]])); impl.append([0, out_region(s)]); meta.append({"make_silence": [d, sr, w, ch]})
        if viol is None and (s.data != b"\0" * (round(d * sr) * w * ch)):
            viol = {"what": "make_silence(%r, %d, %d, %d) is not round(d*rate) zero samples" % (d, sr, w, ch)}
    # construction of ill-formed data, immutability, sum()
    for (w, ch) in FORMATS:
        if w * ch > 1:
            cases.append((13, [[], [7, list(range(w * ch + 1)), 10, w, ch]])); meta.append({"construct_bad_length": [w, ch]})
            try:
                AudioRegion(bytes(range(w * ch + 1)), 10, w, ch); impl.append([0, "accepted"])
                viol = viol or {"what": "data that is not a whole number of samples was accepted", "format": [w, ch]}
            except Exception as x:
                impl.append([1, exc_code(x)])
    reg = AudioRegion(mk_bytes(3, 2, 1), 10, 2, 1)
    for attr, val in (("data", b"xx"), ("sampling_rate", 5), ("sample_width", 1), ("channels", 2)):
        try:
            setattr(reg, attr, val)
            viol = viol or {"what": "attribute %s of a region can be assigned: regions are not immutable" % attr}
        except Exception:
            pass
    regs = [AudioRegion(mk_bytes(k, 2, 2, r), 10, 2, 2) for k in (1, 0, 3, 2)]
    if sum(regs).data != b"".join(x.data for x in regs):
        viol = viol or {"what": "sum(regions) is not the byte concatenation"}
    # join over any iterable of regions (list, tuple, iterator, generator, map): same bytes; a mismatching region raises for all of them
    sep = AudioRegion(mk_bytes(2, 2, 2, r), 10, 2, 2)
    want = sep.data.join(x.data for x in regs)
    odd = regs[:2] + [AudioRegion(mk_bytes(2, 2, 1, r), 10, 2, 1)] + regs[2:]
    for name, mk in (("list", lambda xs: list(xs)), ("tuple", lambda xs: tuple(xs)), ("iterator", lambda xs: iter(list(xs))), ("generator", lambda xs: (x for x in xs)),
                     ("map object", lambda xs: map(lambda x: x, xs))):
        try:
            got = sep.join(mk(regs))
            if viol is None and (got.data != want or (got.sr, got.sw, got.ch) != (10, 2, 2)):
                viol = {"what": "join over a %s of %d regions holds %d bytes, the separator-interleaved concatenation has %d" % (name, len(regs), len(got.data), len(want))}
        except Exception as e:
            viol = viol or {"what": "join over a %s raised %s" % (name, type(e).__name__)}
        try:
            sep.join(mk(odd))
            viol = viol or {"what": "join over a %s containing a region with other audio parameters did not raise" % name}
        except Exception as e:
            if viol is None and type(e).__name__ != "AudioParameterError":
                viol = {"what": "join over a %s containing a region with other audio parameters raised %s instead of AudioParameterError" % (name, type(e).__name__)}
    # joins nested lazily: the inner joins run while the outer one is consuming its iterable (words -> sentences -> text)
    short_ = AudioRegion(mk_bytes(1, 2, 2, r), 10, 2, 2)
    groups = [[AudioRegion(mk_bytes(k + j, 2, 2, r), 10, 2, 2) for k in (1, 2, 0)] for j in range(4)]
    want_n = sep.data.join(short_.data.join(x.data for x in g) for g in groups)
    try:
        got_n = sep.join(short_.join(x for x in g) for g in groups)
        if viol is None and got_n.data != want_n:
            viol = {"what": "long.join(short.join(words) for words in sentences), the inner joins evaluated lazily while the outer one runs, holds %d bytes; the byte-level interleaving has %d" % (len(got_n.data), len(want_n))}
    except Exception as e:
        viol = viol or {"what": "nested lazy joins raised %s: %s" % (type(e).__name__, e)}
    # equality is about bytes and audio parameters only: start times (metadata of where a region was found) play no part
    d_eq = mk_bytes(5, 2, 2, r)
    for sa, sb in ((0.0, 1.5), (None, 2.0), (0.25, 0.25), (3.0, None)):
        a_, b_ = AudioRegion(d_eq, 10, 2, 2, sa), AudioRegion(d_eq, 10, 2, 2, sb)
        if viol is None and not (a_ == b_ and b_ == a_):
            viol = {"what": "two regions with the same bytes and audio parameters compare unequal (start times %r and %r)" % (sa, sb)}
        c_ = AudioRegion(d_eq[:-4], 10, 2, 2, sa)
        if viol is None and (a_ == c_):
            viol = {"what": "two regions with different bytes compare equal"}
    outs = C.model_eval(cases)
    mism = [(m, i, o) for m, i, o in zip(meta, impl, outs) if i != o]
    vm = C.vm_crosscheck(cases, outs, "C17", 30)
    errs = sum(1 for o in outs if isinstance(o, list) and o and o[0] == 1)
    res.coverage.update({"evaluations": len(cases), "distinct_nontrivial": len({C.dumps([c, o]) for c, o in zip(cases, outs) if C.dumps(o).count(",") > 6}),
                         "rule": "seeded random expression trees (add, mul, join, k-th piece of a division, make_silence, slice) over pools of 4 regions with deliberately mixed rate/width/channels (%d of the results are parameter/type errors), operands re-read after every operation; divisions of 1..N-sample regions by every n in 1..len+3; equality pairs; silence durations incl. between-sample values; non-trivial = distinct case with a non-empty result" % errs,
                         "samples": [{"case": meta[7], "model_result": outs[7]}, {"case": meta[-40], "model_result": outs[-40]}],
                         "vm_compute_crosschecked": vm, "correspondence_mismatches": len(mism), "error_results": errs})
    if viol:
        res.add_violation(viol["what"], viol)
    elif mism:
        m, i, o = mism[0]
        res.add_violation("model and implementation differ on %r (impl %r, model %r); the direct byte-level oracle found no failing input" % (m, i, o),
                          {"no_longer_checks": "correspondence Audio/Region.v algebra (ops 13-15)", "case": m, "impl": i, "model": o}, no_input=True)


def run(prop, tier):
    res = C.Result(prop, tier)
    proof = C.proof_step(["Props/%s.v" % prop])
    proof["trusted"] = [
        "model Audio/Region.v written by hand from AudioRegion (core.py); __getitem__ (with _check_convert_index), the seconds and milliseconds views and make_silence are translated from /repo on every run (harness/py2coq/misc.py, groups region / silence) and proved equal to the model for all bounds (TieRegion.v, TieSilence.v); _check_other_parameters, +, *, == and len() likewise (group algebra, TieAlgebra.v); join (a generator pipeline) and / (a while loop) are tied by correspondence (exhaustive small scope / seeded random / large-scale cases)",
        "extraction (ExtrOcamlBasic only) + OCaml driver, cross-checked by vm_compute on a sample",
        "Flocq binary64 for t*rate; float->int conversions defined on (mantissa, exponent) in Z",
    ]
    C.import_auditok()
    from ..py2coq import misctie
    ties = [misctie.tie_group("region"), misctie.tie_group("algebra")] + ([misctie.tie_group("silence"), misctie.tie_group("div")] if prop == "C17" else [])
    proof["tie_obligations"] = [o for t in ties for o in t["obligations"]]
    proof["undischarged"] = [o for t in ties if not t["ok"] for o in t["obligations"]]
    with warnings.catch_warnings():
        warnings.simplefilter("ignore")
        (run_C16 if prop == "C16" else run_C17)(res, tier)
    res.coverage["tie_translation"] = [t["detail"][:300] for t in ties]
    broken = [t for t in ties if not t["ok"]]
    if broken and not res.violations:
        # run_C16 / run_C17 add a violation themselves when the correspondence disagrees, so here it agreed everywhere
        res.tie_undischarged("translation tie broken: %s -- the correspondence agrees everywhere and the %s oracle found no failing input" % (broken[0]["detail"][:600], "Python-slice" if prop == "C16" else "byte-level"),
                             {"no_longer_checks": "TieRegion.v / TieAlgebra.v / TieSilence.v (AudioRegion.__getitem__, views, + * == len, make_silence translated from /repo)",
                              "tie_detail": [t["detail"] for t in broken]})
    return res.finish(proof)
