"""C10 (AudioReader framing) and C19 (recorder): Coq theorems in
IO/ReaderProofs.v + correspondence of the real AudioReader / Recorder with
the extracted wrapper-stack model on an exhaustive grid of small
configurations x read/rewind/data histories."""
import os
import shutil
import wave

from .. import common as C
from .tok import exc_code

FORMATS = [(1, 1), (2, 2), (4, 3)]
RATE = 10


def sample_bytes(i, bps):
    return bytes(((i * bps + j) % 250) + 1 for j in range(bps))


def mk_data(n, bps):
    return b"".join(sample_bytes(i, bps) for i in range(n))


def decode(block, bps, n):
    """bytes -> list of sample indices (None if not whole known samples)"""
    if len(block) % bps:
        return "partial-sample"
    table = {sample_bytes(i, bps): i for i in range(n)}
    out = []
    for k in range(0, len(block), bps):
        out.append(table.get(block[k:k + bps], -1))
    return out


def impl_history(kind, path, n, w, ch, block_dur, hop_dur, record, max_read, ops, use_recorder_class=False, pre_open_reads=0):
    from auditok.util import AudioReader, Recorder
    bps = w * ch
    data = mk_data(n, bps)
    kw = dict(sr=RATE, sw=w, ch=ch)
    if kind == "bytes":
        inp = data
    elif kind == "raw":
        inp = path; kw.update(audio_format="raw", large_file=True)
    else:
        inp = path; kw = dict(large_file=True)
    try:
        if use_recorder_class:
            rd = Recorder(inp, block_dur=block_dur, hop_dur=hop_dur, max_read=max_read, **kw)
        else:
            rd = AudioReader(inp, block_dur=block_dur, hop_dur=hop_dur, record=record, max_read=max_read, **kw)
    except Exception as e:
        return ("ctor", exc_code(e))
    for _ in range(pre_open_reads):
        # a read attempted before open() fails (the source is not open) and must not consume anything of the visible data
        try:
            rd.read()
        except Exception:
            pass
    rd.open()
    outs = []
    for o in ops:
        try:
            if o == 0:
                b = rd.read()
                outs.append([0, [] if b is None else [decode(b, bps, n)]])
            elif o == 1:
                rd.rewind(); outs.append([1])
            else:
                outs.append([2, decode(rd.data, bps, n)])
        except Exception as e:
            outs.append([3, exc_code(e)])
    try:
        rd.close()
    except Exception:
        pass
    return ("ok", outs)


def chk_C10(n, W, H, mx, outs, ops):
    """framing statement on the implementation's first read phase"""
    vis = list(range(n)) if mx is None else list(range(n))[:max(mx, 0)]
    k = 0
    done = False
    for o, r in zip(ops, outs):
        if o != 0:
            break
        if r[0] != 0:
            return "read raised error code %r" % (r[1],)
        hop = W if H is None else H
        exp = vis[k * hop:k * hop + W] if (k == 0 or k * hop + W - hop < len(vis)) else []
        if H is not None and k > 0 and not (k * hop + (W - hop) < len(vis)):
            exp = []
        if not vis:
            exp = []
        got = r[1][0] if r[1] else None
        if got is None:
            done = True
            if exp:
                return "read %d returned None but block %d = samples %r was still due" % (k, k, exp)
        else:
            if done:
                return "a block was returned after None"
            if got != exp:
                return "block %d is %r, expected samples %r (block=%d hop=%r visible=%d)" % (k, got, exp, W, H, len(vis))
            if mx is not None and any(s >= max(mx, 0) for s in got if isinstance(s, int)):
                return "block %d contains samples beyond max_read" % k
        if not done:
            k += 1
    return None


def chk_C19(n, W, H, mx, record, ops, outs):
    """recorder statement on the implementation's outputs"""
    if not record:
        for o, r in zip(ops, outs):
            if o in (1, 2) and r != [3, 7]:
                return "non-recording reader answered %s with %r instead of AttributeError" % ("rewind" if o == 1 else "data", r)
        return None
    vis = list(range(n)) if mx is None else list(range(n))[:max(mx, 0)]
    hop = W if H is None else H
    phase_blocks, first_blocks, data = [], None, None
    k = 0
    for o, r in zip(ops, outs):
        if o == 0:
            if r[0] != 0:
                return "read raised error code %r" % (r[1],)
            phase_blocks.append(r[1][0] if r[1] else None)
            k += 1
        elif o == 1:
            if r != [1]:
                return "rewind raised error code %r" % (r,)
            if data is None:
                consumed = 0 if k == 0 else min(len(vis), (k * W) if H is None else (W + (k - 1) * hop))
                data = vis[:consumed]
                first_blocks = phase_blocks
            else:
                m = min(len(first_blocks), len(phase_blocks))
                # replay identical as long as both phases are within the recorded data
                rec_blocks = expected_blocks(data, W, H, max(len(phase_blocks), 1))
                if phase_blocks != rec_blocks[:len(phase_blocks)]:
                    return "after rewind the reads %r are not the block sequence %r of the recorded data %r" % (phase_blocks, rec_blocks[:len(phase_blocks)], data)
            phase_blocks = []
            k = 0
        else:
            if data is None:
                if r != [3, 6]:
                    return "data before the first rewind returned %r instead of raising RuntimeError" % (r,)
            elif r != [2, data]:
                return "data is %r, expected exactly the consumed portion %r" % (r, data)
    if data is not None and phase_blocks:
        rec_blocks = expected_blocks(data, W, H, len(phase_blocks))
        if phase_blocks != rec_blocks:
            return "after rewind the reads %r are not the block sequence %r of the recorded data %r" % (phase_blocks, rec_blocks, data)
    return None


def expected_blocks(v, W, H, count):
    out = []
    hop = W if H is None else H
    k = 0
    while len(out) < count:
        if not v:
            out.append(None)
        elif k == 0 or k * hop + (W - hop) < len(v):
            b = v[k * hop:k * hop + W]
            out.append(b if b else None)
        else:
            out.append(None)
        k += 1
    return out


def large_framing(r, quick):
    """C10 beyond small sizes: megabytes consumed through the overlap cache, blocks larger than a mebibyte under a limiter,
    judged directly on the bytes (block k = samples [k*hop, k*hop + W) of the visible data)."""
    from auditok.util import AudioReader
    evals, viol = 0, None
    cfgs = [  # rate, sw, ch, seconds, block_dur, hop_dur, max_read
        (16000, 2, 1, 40.0, 0.05, 0.03, None),
        (16000, 2, 1, 40.0, 0.05, 0.03, 37.77),
        (192000, 4, 2, 3.0, 1.0, None, 2.5),
        (192000, 4, 2, 3.0, 1.0, 0.25, 2.5),
        (48000, 2, 3, 9.0, 0.5, 0.2, None),
    ] + ([] if quick else [(8000, 1, 1, 700.0, 0.01, 0.007, None), (384000, 4, 8, 1.0, 0.1, None, 0.95)])
    for (rate, w, ch, secs, bd, hd, mr) in cfgs:
        bps = w * ch
        n = int(secs * rate)
        data = bytes(r.getrandbits(8) for _ in range(4096)) * (n * bps // 4096 + 1)
        data = bytearray(data[:n * bps])
        for i in range(0, len(data), 4099):        # break the period
            data[i] = (i // 4099) % 256
        data = bytes(data)
        W = int(bd * rate); H = W if hd is None else int(hd * rate)
        vis = n if mr is None else min(n, round(mr * rate))
        try:
            rd = AudioReader(data, block_dur=bd, hop_dur=hd, max_read=mr, sr=rate, sw=w, ch=ch)
            rd.open()
            k = 0
            what = None
            while True:
                b = rd.read()
                due = (k == 0 and vis > 0) or (k > 0 and k * H + (W - H) < vis)
                exp = data[k * H * bps:min(k * H + W, vis) * bps] if due else None
                if b != exp:
                    what = "block %d is %s, expected %s (block %d samples, hop %d samples, %d visible samples of %d bytes each)" % (
                        k, "None" if b is None else "%d samples%s" % (len(b) // bps, "" if exp is None or len(b) != len(exp) else " with other content"),
                        "None" if exp is None else "samples [%d, %d)" % (k * H, min(k * H + W, vis)), W, H, vis, bps)
                    break
                if b is None:
                    break
                k += 1
            evals += 1
            if what and viol is None:
                viol = {"what": what, "rate": rate, "format(sw,ch)": [w, ch], "seconds": secs, "block_dur": bd, "hop_dur": hd, "max_read": mr}
        except Exception as e:   # noqa
            viol = viol or {"what": "large reader configuration raised %s: %s" % (type(e).__name__, e), "rate": rate, "block_dur": bd, "hop_dur": hd, "max_read": mr}
    return evals, viol


def long_recordings(r, quick):
    """C19 on long recordings (thousands of reads before the first rewind), judged directly on the bytes"""
    from auditok.util import AudioReader, Recorder
    evals, viol = 0, None
    for (n, W, H, mr, w, ch) in ([(2600, 1, None, None, 2, 1), (2300, 2, 1, None, 1, 2), (5000, 4, 1, 2.5, 2, 1), (1500, 1, None, 1.2, 1, 1), (9500, 1, None, None, 2, 1),
                                  (73000, 73, None, None, 1, 1)] if quick else
                                 [(2600, 1, None, None, 2, 1), (2300, 2, 1, None, 1, 2), (5000, 4, 1, 2.5, 2, 1), (1500, 1, None, 1.2, 1, 1),
                                  (9000, 3, 2, None, 4, 1), (7000, 1, None, 6.0005, 2, 2), (4200, 2, None, None, 2, 3)]):
        rate = 1000 if n < 50000 else 10          # the last kind is more than two hours of audio at 10 Hz
        bps = w * ch
        data = bytes(r.randrange(256) for _ in range(n * bps))
        vis = n if mr is None else min(n, round(mr * rate))
        hop = W if H is None else H
        for k in (1030, 1500, 2049, 4500, 10 ** 6):
            for cls in ("AudioReader", "Recorder"):
                try:
                    kw = dict(block_dur=W / rate, hop_dur=(None if H is None else H / rate), max_read=mr, sr=rate, sw=w, ch=ch)
                    rd = AudioReader(data, record=True, **kw) if cls == "AudioReader" else Recorder(data, **kw)
                    rd.open()
                    blocks = []
                    for _ in range(k):
                        b = rd.read()
                        if b is None:
                            break
                        blocks.append(b)
                    rd.rewind()
                    got = rd.data
                    replay = []
                    for _ in range(len(blocks) + 1):
                        b = rd.read()
                        if b is None:
                            break
                        replay.append(b)
                    rd.rewind()
                    again = rd.data
                except Exception as e:   # noqa
                    viol = viol or {"what": "long recording raised %s: %s" % (type(e).__name__, e), "samples": n, "block": W, "hop": H, "max_read": mr, "reads": k}
                    continue
                evals += 1
                nb = len(blocks)
                consumed = 0 if nb == 0 else min(vis, nb * W if H is None else W + (nb - 1) * hop)
                what = None
                if got != data[:consumed * bps]:
                    what = "data holds %d bytes after %d reads, the consumed portion is %d bytes%s" % (len(got), nb, consumed * bps, " but with other content (order or values)" if len(got) == consumed * bps else " (content differs too)" if got != data[:len(got)] else "")
                elif replay[:nb] != blocks[:len(replay)] or len(replay) < min(nb, 1):
                    what = "replay after rewind differs from the blocks read before it (first difference at block %d)" % next((i for i, (a, b) in enumerate(zip(replay, blocks)) if a != b), min(len(replay), nb))
                elif again != got:
                    what = "data changed after a second rewind"
                if what and viol is None:
                    viol = {"what": what, "class": cls, "samples": n, "format(sw,ch)": [w, ch], "block_samples": W, "hop_samples": H, "max_read": mr, "reads_before_rewind": nb, "rate": rate}
    return evals, viol


def other_forms(r, quick, prop):
    """the same statements through other ways of building a reader: limits and hops given positionally (AudioReader(input,
    block_dur, hop_dur, record, max_read), Recorder(input, block_dur, hop_dur, max_read)), and a recorder placed over a source
    that is already open and partly consumed (it records what IT reads, from where the source stands)"""
    from auditok.util import AudioReader, Recorder
    from auditok.io import BufferAudioSource
    evals, viol = 0, None

    def drain(rd, limit=10000):
        out = []
        while len(out) < limit:
            b = rd.read()
            if b is None:
                break
            out.append(bytes(b))
        return out
    for _ in range(60 if quick else 600):
        rate = r.choice([10, 100, 8000]); w, ch = r.choice([(1, 1), (2, 1), (2, 2), (4, 1)])
        bps = w * ch
        n = r.randint(0, 60)
        data = bytes(r.getrandbits(8) for _ in range(n * bps))
        W = r.randint(1, 7); H = r.choice([None] + list(range(1, W + 1)))
        bd, hd = W / rate, (None if H is None else H / rate)
        mr = r.choice([None, r.randint(0, 70) / rate, (r.randint(0, 70) + 0.5) / rate])
        kw = dict(sr=rate, sw=w, ch=ch)
        evals += 1
        try:
            ref = Recorder(data, block_dur=bd, hop_dur=hd, max_read=mr, **kw); ref.open(); ref_blocks = drain(ref); ref.rewind(); ref_data = bytes(ref.data)
            pos = Recorder(data, bd, hd, mr, **kw); pos.open(); pos_blocks = drain(pos); pos.rewind(); pos_data = bytes(pos.data)
            ar = AudioReader(data, bd, hd, True, mr, **kw); ar.open(); ar_blocks = drain(ar); ar.rewind(); ar_data = bytes(ar.data)
            if viol is None and (pos_blocks != ref_blocks or pos_data != ref_data):
                viol = {"what": "Recorder(input, %r, %r, %r) with the hop and the limit given positionally delivers %d blocks and records %d bytes; with keywords %d blocks and %d bytes" % (
                    bd, hd, mr, len(pos_blocks), len(pos_data), len(ref_blocks), len(ref_data)), "rate": rate, "sw": w, "ch": ch, "samples": n}
            if viol is None and (ar_blocks != ref_blocks or ar_data != ref_data):
                viol = {"what": "AudioReader(input, %r, %r, True, %r) with positional arguments differs from the Recorder with keywords (%d / %d blocks, %d / %d bytes recorded)" % (
                    bd, hd, mr, len(ar_blocks), len(ref_blocks), len(ar_data), len(ref_data)), "rate": rate, "sw": w, "ch": ch, "samples": n}
        except Exception as e:
            viol = viol or {"what": "building or reading a reader from positional arguments raised %s: %s" % (type(e).__name__, e)}
        # two readers of the same shape over different audio, read alternately: nothing is shared between reader objects
        evals += 1
        try:
            other = bytes(reversed(data))
            qa = Recorder(data, block_dur=bd, hop_dur=hd, max_read=mr, **kw); qb = Recorder(other, block_dur=bd, hop_dur=hd, max_read=mr, **kw)
            qa.open(); qb.open()
            sa = []
            for _k in range(len(ref_blocks) + 2):
                xa_ = qa.read(); qb.read()
                if xa_ is not None:
                    sa.append(bytes(xa_))
            qa.rewind(); qb.rewind()
            if viol is None and (sa != ref_blocks or bytes(qa.data) != ref_data):
                viol = {"what": "two Recorders (block %d, hop %r samples, max_read %r) over different audio read alternately: the first delivers %d blocks / records %d bytes, alone it delivers %d blocks / records %d bytes" % (
                    W, H, mr, len(sa), len(bytes(qa.data)), len(ref_blocks), len(ref_data)), "rate": rate, "sw": w, "ch": ch, "samples": n}
        except Exception as e:
            viol = viol or {"what": "two recorders read alternately raised %s: %s" % (type(e).__name__, e)}
        # open() on a reader that is already open is a no-op (split() itself calls open() on the reader it is given): the blocks
        # after it continue the sequence
        evals += 1
        try:
            k_ = r.randint(0, max(1, len(ref_blocks)))
            ro = AudioReader(data, block_dur=bd, hop_dur=hd, max_read=mr, record=r.random() < 0.3, **kw); ro.open()
            seq = [ro.read() for _k in range(k_)]
            ro.open()
            seq += drain(ro)
            seq = [bytes(b) for b in seq if b is not None]
            if viol is None and seq != ref_blocks:
                viol = {"what": "AudioReader (block %d, hop %r samples, max_read %r): after %d reads a second open() on the open reader, then reading on: %d blocks %r..., a reader opened once delivers %d blocks %r..." % (
                    W, H, mr, k_, len(seq), [list(b[:4]) for b in seq[k_:k_ + 2]], len(ref_blocks), [list(b[:4]) for b in ref_blocks[k_:k_ + 2]]), "rate": rate, "sw": w, "ch": ch, "samples": n}
        except Exception as e:
            viol = viol or {"what": "open() on an open reader raised %s: %s" % (type(e).__name__, e)}
        if prop != "C19" or n == 0:
            continue
        # the reader is closed before the first rewind (what the command line does before plotting): data is still what was consumed
        evals += 1
        try:
            k_ = r.randint(0, len(ref_blocks) + 1)
            for cls_kw in (dict(use=Recorder, kw={}), dict(use=AudioReader, kw=dict(record=True))):
                rc = cls_kw["use"](data, block_dur=bd, hop_dur=hd, max_read=mr, **cls_kw["kw"], **kw); rc.open()
                got = [rc.read() for _k in range(k_)]
                got = [bytes(b) for b in got if b is not None]
                hop = W if H is None else H
                consumed = b"" if not got else got[0] + b"".join(g[(W - hop) * bps:] for g in got[1:])
                rc.close(); rc.rewind()
                d = bytes(rc.data)
                again = [rc.read() for _k in range(len(got))]
                again = [None if b is None else bytes(b) for b in again]
                if viol is None and (d != consumed or again != got):
                    viol = {"what": "%s (block %d, hop %r samples, max_read %r) read %d blocks, then close(), rewind(): data holds %d bytes (%d were consumed), the replay returns %d of the %d blocks" % (
                        cls_kw["use"].__name__, W, H, mr, len(got), len(d), len(consumed), sum(1 for a_, b_ in zip(again, got) if a_ == b_), len(got)), "rate": rate, "sw": w, "ch": ch, "samples": n}
        except Exception as e:
            viol = viol or {"what": "close() followed by rewind() on a recording reader raised %s: %s" % (type(e).__name__, e)}
        # a recorder over a source that has already been read from
        pre = r.randint(1, n)
        evals += 1
        try:
            src = BufferAudioSource(data, rate, w, ch); src.open(); src.read(pre)
            rec = Recorder(src, block_dur=bd, hop_dur=hd, max_read=mr)
            nread = r.randint(0, 12)
            got = []
            for _k in range(nread):
                b = rec.read()
                if b is None:
                    break
                got.append(bytes(b))
            hop = W if H is None else H
            consumed = b"" if not got else got[0] + b"".join(g[(W - hop) * bps:] for g in got[1:])
            rec.rewind()
            d = bytes(rec.data)
            again = []
            for _k in range(len(got)):
                b = rec.read()
                again.append(None if b is None else bytes(b))
            if viol is None and d != consumed:
                viol = {"what": "Recorder over a source already advanced by %d samples: after %d reads and rewind, data holds %d bytes starting %r..., the reads returned %d bytes starting %r..." % (
                    pre, len(got), len(d), list(d[:6]), len(consumed), list(consumed[:6])), "rate": rate, "sw": w, "ch": ch, "samples": n, "block": W, "hop": H, "max_read": mr}
            if viol is None and again != got:
                viol = {"what": "Recorder over a source already advanced by %d samples: the replay after rewind differs from the first pass" % pre, "rate": rate, "sw": w, "ch": ch, "samples": n, "block": W, "hop": H}
        except Exception as e:
            viol = viol or {"what": "Recorder over an open, partly consumed source raised %s: %s" % (type(e).__name__, e)}
    return evals, viol


def histories(prop, n, W, H, quick):
    hop = W if H is None else H
    nb = 1 + max(0, n - W + hop - 1) // hop + 1
    if prop == "C10":
        return [[0] * (nb + 3)]
    hs = []
    ks = sorted(set([0, 1, 2, nb - 1, nb, nb + 2]))
    ks = [k for k in ks if k >= 0]
    for k in ks:
        hs.append([2] + [0] * k + [1, 2] + [0] * (k + 1) + [1, 2] + [0] * 2)
    hs.append([0, 0, 1, 0, 1, 0, 0, 0, 2, 1, 2, 0])
    hs.append([1, 2, 0, 0])
    return hs


def run(prop, tier):
    res = C.Result(prop, tier)
    proof = C.proof_step(["Props/%s.v" % prop])
    proof["trusted"] = [
        "model IO/Reader.v written by hand from util.py (_Recorder, _Limiter, _FixedSizeAudioReader, _OverlapAudioReader, AudioReader), at whole-sample granularity; the constructor arithmetic (AudioReader.__init__ with the constructors of _Limiter, _FixedSizeAudioReader, _OverlapAudioReader: round(max_read*sr), the sign / hop / one-sample checks, int(block_dur*sr), int(hop_dur*sr), the fixed-or-overlap choice) is sliced and translated from /repo's util.py on every run and proved equal to Reader.reader_params for all float inputs (harness/py2coq/misc.py group reader, TieReader.v); the read / rewind / data behaviour of the wrappers is tied by correspondence (exhaustive small grid); byte arithmetic of the wrappers is exercised with multi-byte multi-channel audio",
        "extraction (ExtrOcamlBasic only) + OCaml driver, cross-checked by vm_compute on a sample",
        "Flocq binary64 for block_dur*rate, hop_dur*rate, round(max_read*rate); file system and wave module exercised, not modelled",
    ]
    from ..py2coq import misctie
    tie = misctie.tie_group("reader")
    proof["tie_obligations"] = tie["obligations"]
    if not tie["ok"]:
        proof["undischarged"] = tie["obligations"]
    C.import_auditok()
    quick = tier == "quick"
    r = C.rng(prop)
    maxn = 9 if quick else 14
    maxW = 4 if quick else 5
    # incl. products t*rate that round() and int() treat differently (2.6, 7.5, 3.5) and banker's-rounding ties (0.5, 2.5)
    mr_grid = [None, 0.0, 0.04, 0.05, 0.15, 0.25, 0.26, 0.3, 0.35, 0.7, 0.75, 1.0, 5.0] if not quick else [None, 0.0, 0.05, 0.25, 0.26, 0.3, 0.75, 5.0]
    tmpd = os.path.join(C.TMP, "%s_%d" % (prop, os.getpid()))
    os.makedirs(tmpd, exist_ok=True)
    cases, impl, meta, pcases = [], [], [], []
    viol = None
    try:
        files = {}
        for n in range(0, maxn + 1):
            for W in range(1, maxW + 1):
                # "eq": hop_dur < block_dur in seconds but the same number of samples (overlapping reader with an empty overlap)
                for Hsel in [None] + list(range(1, W + 1)) + ["eq"]:
                    for mr in mr_grid:
                        for record in ((False, True) if prop == "C10" else (True, False)):
                            H = W if Hsel == "eq" else Hsel
                            Hn = H
                            w, ch = FORMATS[(n + W + (Hn or 0)) % 3]
                            kind = ("bytes", "raw", "wav")[(n * 7 + W * 3 + (Hn or 0) + (1 if record else 0)) % 3] if (n + W) % 2 == 0 else "bytes"
                            bps = w * ch
                            path = None
                            if kind != "bytes":
                                key = (kind, n, w, ch)
                                if key not in files:
                                    p = os.path.join(tmpd, "%s_%d_%d_%d.%s" % (key + (kind,)))
                                    if kind == "raw":
                                        open(p, "wb").write(mk_data(n, bps))
                                    else:
                                        with wave.open(p, "wb") as f:
                                            f.setframerate(RATE); f.setsampwidth(w); f.setnchannels(ch); f.writeframes(mk_data(n, bps))
                                    files[key] = p
                                path = files[key]
                            bd, hd = W / RATE, (None if H is None else H / RATE)
                            if Hsel == "eq":
                                bd, hd = (W + 0.5) / RATE, W / RATE
                            pc = (31, [RATE, C.fhex_me(bd), [] if hd is None else [C.fhex_me(hd)], [] if mr is None else [C.fhex_me(mr)]])
                            for ops in histories(prop, n, W, H, quick):
                                if prop == "C19" and not record and len(ops) > 6:
                                    continue
                                use_rec = prop == "C19" and record and (n + W) % 3 == 0
                                pre = 2 if (n + 2 * W + (Hn or 0)) % 4 == 0 else 0
                                st, outs = impl_history(kind, path, n, w, ch, bd, hd, record, mr, ops, use_rec, pre)
                                pcases.append(pc)
                                cases.append([list(range(n)), None, None, 1 if record else 0, None, ops])
                                impl.append((st, outs))
                                meta.append({"source_kind": kind, "samples": n, "format(sw,ch)": [w, ch], "block_dur": bd, "hop_dur": hd,
                                             "max_read": mr, "record": record, "ops(0=read,1=rewind,2=data)": ops, "Recorder_class": use_rec,
                                             "failed_reads_before_open": pre})
        # degenerate constructor arguments (rejections)
        for bd, hd in ((0.0, None), (-0.1, None), (0.05, None), (0.09, None), (0.2, 0.3), (0.2, 0.25), (0.3, 0.30000000000000004), (1e-9, None)):
            st, outs = impl_history("bytes", None, 5, 1, 1, bd, hd, False, None, [0])
            pcases.append((31, [RATE, C.fhex_me(bd), [] if hd is None else [C.fhex_me(hd)], []]))
            cases.append([list(range(5)), None, None, 0, None, [0]])
            impl.append((st, outs)); meta.append({"constructor_args": [bd, hd], "samples": 5})
    finally:
        shutil.rmtree(tmpd, ignore_errors=True)
    # resolve the float parameters through the model, then run the model's wrapper stack
    pouts = C.model_eval(pcases)
    mcases, idx = [], []
    mism = []
    for i, (po, cs) in enumerate(zip(pouts, cases)):
        if po[0] == 1:
            if impl[i] != ("ctor", po[1]) and not (impl[i][0] == "ctor" and po[1] == 9 and impl[i][1] in (1, 9)):
                mism.append((meta[i], impl[i], po))
            if po[1] in (1, 9) and impl[i][0] != "ctor" and viol is None:
                viol = {"what": "block_dur shorter than one sample / hop_dur > block_dur / non-positive block_dur was not rejected", **meta[i]}
            continue
        W, H, mx = po[1][0], po[1][1], po[1][2]
        cs[1], cs[2], cs[4] = W, H, mx
        mcases.append((30, cs)); idx.append(i)
    mouts = C.model_eval(mcases)
    nontriv = set()
    for (op, cs), mo, i in zip(mcases, mouts, idx):
        st, outs = impl[i]
        if st != "ok" or outs != mo:
            mism.append((meta[i], (st, outs), mo))
        H = cs[2][0] if cs[2] else None
        mx = cs[4][0] if cs[4] else None
        if viol is None and st == "ok" and (H is None or H >= 1):
            wv = chk_C10(len(cs[0]), cs[1], H, mx, outs, cs[5]) if prop == "C10" else chk_C19(len(cs[0]), cs[1], H, mx, bool(cs[3]), cs[5], outs)
            if wv:
                viol = {"what": wv, **meta[i], "impl_outputs": outs}
        if any(x[0] == 0 and x[1] for x in mo):
            nontriv.add(C.dumps(cs))
    if prop == "C10":
        ev_l, v_l = large_framing(r, quick)
        res.notes["large_configurations"] = ev_l
        if viol is None and v_l:
            viol = v_l
    if prop == "C19":
        ev_l, v_l = long_recordings(r, quick)
        res.notes["long_recordings"] = ev_l
        if viol is None and v_l:
            viol = v_l
    ev_o, v_o = other_forms(r, quick, prop)
    res.notes["positional_and_pre_consumed_forms"] = ev_o
    if viol is None and v_o:
        viol = v_o
    vm = C.vm_crosscheck(mcases, mouts, prop, 30)
    res.coverage.update({"evaluations": len(cases), "distinct_nontrivial": len(nontriv),
                         "rule": "exhaustive grid: source length 0..%d samples x block 1..%d x hop in {None, 1..block} x max_read in %r x record on/off x formats %r over buffer / raw-file / wav-file sources, with %s; non-trivial = distinct configuration+history returning at least one block" % (
                             maxn, maxW, mr_grid, FORMATS, "reads to exhaustion + 3 reads past the end" if prop == "C10" else "histories read^k rewind data read^(k+1) rewind data read^2 for k from 0 to past the end (AudioReader(record=True) and Recorder)"),
                         "samples": [{"case": meta[idx[len(idx) // 3]], "model_outputs": mouts[len(idx) // 3]}, {"case": meta[idx[-9]], "model_outputs": mouts[-9]}],
                         "exhaustive": True, "vm_compute_crosschecked": vm, "correspondence_mismatches": len(mism), "tie_translation": tie["detail"][:300]})
    if viol:
        res.add_violation(viol["what"], viol)
    elif not tie["ok"] and not mism:
        res.tie_undischarged("translation tie broken: %s -- the correspondence agrees and the statement held on all %d real runs" % (tie["detail"][:700], len(cases)),
                             {"no_longer_checks": "TieReader.v (constructor arithmetic, layers and overlap generator of the reader stack)", "tie_detail": tie["detail"]})
    elif mism:
        m, i, o = mism[0]
        res.add_violation("model and implementation differ on %r (impl %r, model %r); the statement's own oracle found no failing input" % (m, i, o),
                          {"no_longer_checks": "correspondence IO/Reader.v (ops 30-31)", "case": m, "impl": i, "model": o}, no_input=True)
    return res.finish(proof)
