"""Entry point of every registered check:  check.py <Cxx> [--tier quick|thorough]"""
import argparse
import importlib
import os
import sys
import traceback

sys.path.insert(0, os.path.dirname(os.path.dirname(os.path.abspath(__file__))))
os.environ.setdefault("PYTHONHASHSEED", "0")

from harness import common as C  # noqa: E402

MODULES = {
    "C01": "tok", "C02": "tok", "C03": "tok", "C04": "tok", "C08": "tok", "C20": "tok",
    "C16": "region", "C17": "region", "C11": "source", "C05": "split", "C09": "split", "C18": "wavio", "C07": "energy", "C06": "duration", "C10": "reader", "C19": "reader",
    "C12": "workers", "C13": "workers", "C14": "workers", "C15": "cli",
}


def main():
    ap = argparse.ArgumentParser()
    ap.add_argument("prop")
    ap.add_argument("--tier", default=os.environ.get("VERIF_TIER", "quick"), choices=["quick", "thorough"])
    a = ap.parse_args()
    if a.prop not in MODULES:
        print("unknown property", a.prop)
        return 2
    os.makedirs(C.TMP, exist_ok=True)
    os.environ["VERIF_TIER_CURRENT"] = a.tier
    try:
        mod = importlib.import_module("harness.props." + MODULES[a.prop])
        rc = mod.run(a.prop, a.tier)
        base = C.seed()
        k = 0
        while rc == 3:
            # only a translation-tie lemma failed to re-check; the correspondence agrees and the oracle found nothing:
            # search again under further seeds before concluding (see DESIGN.md section 10, "verdict when only a translation tie breaks")
            k += 1
            os.environ["VERIF_DEEPEN"] = str(k)
            os.environ["VERIF_SEED"] = str(base + 7919 * k)
            rc = mod.run(a.prop, a.tier)
        return rc
    except C.CheckError as e:
        # the machinery could not establish the property: proof, tie or build broke
        res = C.Result(a.prop, a.tier)
        res.coverage.update({"evaluations": 1, "distinct_nontrivial": 0, "rule": "check aborted", "samples": [str(e)[:500]]})
        res.add_violation("check could not be completed: %s" % str(e)[:1500], {"error": str(e)[:4000]}, no_input=True)
        return res.finish(None, level="other", extra_cov={"explanation": "aborted: " + str(e)[:300]})
    except Exception:
        tb = traceback.format_exc()
        res = C.Result(a.prop, a.tier)
        res.coverage.update({"evaluations": 1, "distinct_nontrivial": 0, "rule": "check crashed", "samples": [tb[-500:]]})
        res.add_violation("check crashed (implementation could not be driven): %s" % tb[-1200:], {"traceback": tb}, no_input=True)
        return res.finish(None, level="other", extra_cov={"explanation": "crashed"})


if __name__ == "__main__":
    sys.exit(main())
