"""Lock-step scheduler for the real auditok worker threads.

Exactly one controlled thread runs at a time, from one scheduling point to the
next.  Scheduling points are the operations through which the threads of
auditok.workers interact: Queue.put / get / get_nowait on a worker inbox, a read
of the audio source by the tokenizer worker, Thread.join, thread exit.  They are
introduced from outside by rebinding module globals of the imported package
(auditok.workers.Queue, Worker.start, Worker.join) - no source hooks.

A *policy* picks, at every step, which parked thread moves next and whether a
get() on an empty queue times out.  Everything a thread does in its turn is
appended to `trace` as an event in the encoding of coq/Conc/Monitor.v."""
import queue
import threading

STOP = "STOP_PROCESSING"


class Stuck(Exception):
    pass


class Sched:
    def __init__(self, workers_mod):
        self.W = workers_mod
        self.roles = {}          # id(worker object) -> role
        self.qowner = {}         # id(queue) -> role
        self.ident = {}          # thread ident -> role
        self.go = {}
        self.parked = {}
        self.pending = {}        # role -> op tuple
        self.grant = {}
        self.done = set()
        self.started = []
        self.trace = []          # monitor events (lists of ints)
        self.log = []            # human-readable (role, text)
        self.anomalies = []      # things the monitor has no event for
        self.crashes = []
        self.got_stop = set()    # roles that have received their stop marker
        self.just_read = None    # (data,) right after the tokenizer's source read, until its next scheduling point
        self.nreads = 0
        self.blocks_read = []    # bytes of every block the source handed out
        self.steps = 0
        self.main_requested = False
        self.lock = threading.Lock()

    # ------------------------------------------------------------ registration
    def add_role(self, role, obj=None, q=None):
        self.go[role] = threading.Semaphore(0)
        self.parked[role] = threading.Semaphore(0)
        if obj is not None:
            self.roles[id(obj)] = role
        if q is not None:
            self.qowner[id(q)] = role

    def role_of_current(self):
        return self.ident.get(threading.get_ident())

    def bind_current(self, role):
        self.ident[threading.get_ident()] = role

    # ------------------------------------------------------------ thread side
    def park(self, op):
        role = self.role_of_current()
        if role is None:
            return "do"
        if role == "tok":
            self.just_read = None
        self.pending[role] = op
        self.parked[role].release()
        self.go[role].acquire()
        self.pending.pop(role, None)
        return self.grant.pop(role, "do")

    def mark_done(self, role):
        self.done.add(role)
        self.parked[role].release()

    def ev(self, role, code, *args, text=""):
        self.trace.append([code] + list(args))
        self.log.append("%s: %s" % (role, text))

    # ------------------------------------------------------------ controller side
    def eligible(self):
        """[(role, grant)] for every parked thread that can move now"""
        out = []
        for role, op in list(self.pending.items()):
            k = op[0]
            if k == "get":
                q, block, timeout = op[1], op[2], op[3]
                if q.qsize() > 0:
                    out.append((role, "do"))
                elif not block:
                    out.append((role, "empty"))       # get_nowait on an empty queue: returns at once, a real move
                elif timeout is not None:
                    out.append((role, "timeout"))     # blocking get that may time out: a stutter step
            elif k == "join":
                if op[1] in self.done or op[1] is None:
                    out.append((role, "do"))
                elif len(op) > 2 and op[2] is not None:
                    out.append((role, "jtimeout"))    # a join WITH a timeout may give up while the target is still running
            elif k == "mainstop":
                out.append((role, "stop"))
            else:
                out.append((role, "do"))
        return out

    def turn(self, role, grant, wait=20.0):
        self.steps += 1
        self.grant[role] = grant
        self.go[role].release()
        if not self.parked[role].acquire(timeout=wait):
            raise Stuck("thread %s did not reach its next queue operation / exit within %.0f s (blocked outside the modelled operations)" % (role, wait))

    def start_thread(self, role, thread):
        self.started.append(role)
        thread.start()
        if not self.parked[role].acquire(timeout=20.0):
            raise Stuck("thread %s did not reach its first scheduling point" % role)

    def kill_all(self):
        """best effort: let every parked thread run to completion without control (used after a failure)"""
        self.ident.clear()
        for role in list(self.go):
            for _ in range(1000):
                self.go[role].release()


CUR = [None]     # the scheduler in force (one per process at a time)


_RealQueue = queue.Queue          # the class itself: queue.Queue may be rebound to SchedQueue while a scenario runs


class SchedQueue(_RealQueue):
    """queue.Queue whose operations are scheduling points when called from a controlled thread"""

    def _who(self):
        S = CUR[0]
        if S is None:
            return None, None, None
        return S, S.role_of_current(), S.qowner.get(id(self))

    def put(self, item, block=True, timeout=None):
        S, role, owner = self._who()
        if role is None:
            return _RealQueue.put(self, item, block, timeout)
        is_stop = isinstance(item, str) and item == STOP
        if role == "tok" and owner == "sav" and S.just_read is not None:
            # StreamSaverWorker.read(): the block just read is forwarded to the writer in the same turn (model step TRead)
            data = S.just_read[0]
            S.just_read = None
            if (data is None) != is_stop or (data is not None and item is not data and item != data):
                S.anomalies.append("tokenizer thread forwarded %s to the writer after reading %s" % (
                    "the stop marker" if is_stop else "a block of %d bytes" % len(item), "None" if data is None else "a block of %d bytes" % len(data)))
            return _RealQueue.put(self, item)
        S.park(("put", self, owner))
        _RealQueue.put(self, item)
        if role == "tok" and owner is not None and owner.startswith("obs"):
            j = int(owner[3:])
            if is_stop:
                S.ev(role, 2, j, 0, text="put stop marker -> observer %d" % j)
            else:
                try:
                    did = int(item[0])
                except Exception:
                    did = -7
                S.ev(role, 2, j, did, text="put detection %s -> observer %d" % (did, j))
        elif role == "tok" and owner == "sav" and is_stop:
            S.ev(role, 3, text="close(): put stop marker -> writer")
        elif role == "main" and owner == "tok" and is_stop:
            S.ev(role, 11, 1 if S.main_requested else 0, text="stop_all: put stop marker -> tokenizer (%s)" % ("requested stop" if S.main_requested else "all workers ended"))
        elif role == "main" and owner is not None and owner.startswith("obs") and is_stop:
            S.ev(role, 13, int(owner[3:]), text="stop_all: put stop marker -> observer %s" % owner[3:])
        elif role == "main" and owner == "sav" and is_stop:
            S.ev(role, 15, text="stop_all: close reader: put stop marker -> writer")
        else:
            S.anomalies.append("unexpected put by %s into the inbox of %s (%s)" % (role, owner, "stop marker" if is_stop else type(item).__name__))
            S.ev(role, 99, text="unexpected put")

    def get(self, block=True, timeout=None):
        S, role, owner = self._who()
        if role is None:
            return _RealQueue.get(self, block, timeout)
        g = S.park(("get", self, block, timeout))
        if g in ("timeout", "empty"):
            item, r = None, -1
        else:
            item = _RealQueue.get(self, False)
            is_stop = isinstance(item, str) and item == STOP
            if is_stop:
                r = 0
            elif owner == "sav":
                r = 1
            else:
                try:
                    r = int(item[0])
                except Exception:
                    r = -7
        if owner != role:
            S.anomalies.append("%s reads the inbox of %s" % (role, owner))
            S.ev(role, 99, text="foreign get")
        elif role == "tok":
            if not block:
                S.ev(role, 0, 1 if r == 0 else 0, text="poll own inbox: %s" % ("stop requested" if r == 0 else "empty"))
            else:
                S.anomalies.append("tokenizer thread waits on its inbox")
                S.ev(role, 99, text="blocking get by tok")
        elif role.startswith("obs"):
            j = int(role[3:])
            if role in S.got_stop:
                # _post_process of the joiner: drains what is left after the stop marker; nothing but stop markers may be there
                if r > 0:
                    S.anomalies.append("observer %d found detection %d queued behind its stop marker" % (j, r))
                S.log.append("%s: post-stop get_nowait -> %s" % (role, r))
            else:
                S.ev(role, 6, j, r, text="get -> %s" % ("timeout" if r == -1 else "stop marker" if r == 0 else "detection %d" % r))
                if r == 0:
                    S.got_stop.add(role)
        elif role == "sav":
            if role in S.got_stop:
                S.ev(role, 9, r, text="drain get_nowait -> %s" % ("Empty" if r == -1 else "stop marker" if r == 0 else "block"))
            else:
                S.ev(role, 8, r, text="get -> %s" % ("timeout" if r == -1 else "stop marker" if r == 0 else "block"))
                if r == 0:
                    S.got_stop.add(role)
        if g in ("timeout", "empty"):
            raise queue.Empty
        return item

    def get_nowait(self):
        return self.get(False)

    def put_nowait(self, item):
        return self.put(item, False)


class ProxyReader:
    """Stands between the tokenizer worker (or the stream saver) and the real AudioReader: a read is a scheduling point."""

    def __init__(self, inner, sched):
        object.__setattr__(self, "_inner", inner)
        object.__setattr__(self, "_S", sched)

    def read(self):
        S = self._S
        S.park(("read",))
        data = self._inner.read()
        S.just_read = (data,)
        if data is None:
            S.ev("tok", 1, [], text="source read -> None")
        else:
            S.ev("tok", 1, [S.nreads], text="source read -> block %d (%d bytes)" % (S.nreads, len(data)))
            S.nreads += 1
            S.blocks_read.append(bytes(data))
        return data

    def __getattr__(self, name):
        return getattr(self._inner, name)


def install(sched):
    """rebind the collaborators of auditok.workers; returns an undo function"""
    W = sched.W
    CUR[0] = sched
    # the queue class is replaced both under the name workers.py imported it by (`from queue import Queue`) and in the queue
    # module itself (`import queue` ... `queue.Queue()`), whichever way the module spells it
    saved = (W.__dict__.get("Queue"), W.Worker.__dict__.get("start"), W.Worker.__dict__.get("join"), queue.Queue)
    if saved[0] is not None:
        W.Queue = SchedQueue
    else:
        queue.Queue = SchedQueue

    def start(self):
        S = CUR[0]
        role = S.roles.get(id(self))
        if role is None:
            return threading.Thread.start(self)
        orig_run = self.run

        def run_wrapper():
            S.bind_current(role)
            try:
                orig_run()
            except BaseException as e:   # noqa
                import traceback
                S.crashes.append("%s: %s" % (role, traceback.format_exc()[-600:]))
            finally:
                if S.role_of_current() == role:
                    S.park(("exit",))
                    code = {"tok": 5, "sav": 10, "main": 17}.get(role)
                    if code is not None:
                        S.ev(role, code, text="thread exits")
                    else:
                        S.ev(role, 7, int(role[3:]), text="thread exits")
                S.mark_done(role)
        self.run = run_wrapper
        S.started.append(role)
        threading.Thread.start(self)
        if not S.parked[role].acquire(timeout=20.0):
            raise Stuck("thread %s did not reach its first scheduling point" % role)

    def join(self, timeout=None):
        S = CUR[0]
        role = S.role_of_current()
        target = S.roles.get(id(self))
        if role is None:
            return threading.Thread.join(self, timeout)
        if target is not None and target not in S.started:
            target_done = None      # join on a thread that was never started raises in CPython; let it
        else:
            target_done = target
        g = S.park(("join", target_done, timeout))
        if g == "jtimeout":
            S.anomalies.append("timed join of %s by %s returned while the thread was still running" % (target, role))
            S.ev(role, 99, text="join(timeout) of %s gave up" % target)
            return
        threading.Thread.join(self, 20.0)
        if self.is_alive():
            S.anomalies.append("join of %s by %s did not return" % (target, role))
        if role == "main" and target == "tok":
            S.ev(role, 12, text="join tokenizer")
        elif role == "main" and target is not None and target.startswith("obs"):
            S.ev(role, 14, int(target[3:]), text="join observer %s" % target[3:])
        elif role == "main" and target == "sav":
            S.ev(role, 16, text="join writer")
        elif role == "tok" and target == "sav":
            S.ev(role, 4, text="join writer")
        else:
            S.anomalies.append("unexpected join of %s by %s" % (target, role))
            S.ev(role, 99, text="unexpected join")

    W.Worker.start = start
    W.Worker.join = join

    def undo():
        if saved[0] is not None:
            W.Queue = saved[0]
        else:
            queue.Queue = saved[3]
        for name, val in (("start", saved[1]), ("join", saved[2])):
            if val is None:
                try:
                    delattr(W.Worker, name)
                except AttributeError:
                    pass
            else:
                setattr(W.Worker, name, val)
        CUR[0] = None
    return undo
