#!/bin/bash
# Build everything the checks need from files on disk (offline): the Coq
# development (full .vo build) and the extracted OCaml driver.
set -e
cd "$(dirname "$0")"
mkdir -p build/tmp build/ocaml build/gen evidence
cd coq
coq_makefile -f _CoqProject -o Makefile > /dev/null
timeout 3600 make -j16
cd ..
PYTHONPATH=/repo /venv/bin/python - <<'PY'
import sys
sys.path.insert(0, ".")
from harness import common as C
with C.BuildLock():
    C.build_driver()
print("setup ok")
PY
