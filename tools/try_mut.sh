#!/bin/bash
# dev helper: run checks against a scratch worktree of /repo with one textual replacement applied
# usage: tools/try_mut.sh <file> <old> <new> Cxx [Cyy ...]      (env TIER, LINES_)
set -u
WT=/tmp/wt_mut_$$
git -C /repo worktree add -f $WT HEAD -q || exit 2
/venv/bin/python - "$WT/$1" "$2" "$3" <<'PY' || { git -C /repo worktree remove --force $WT; exit 2; }
import sys
p, old, new = sys.argv[1:4]
s = open(p).read()
if s.count(old) != 1:
    print("pattern occurs %d times" % s.count(old)); sys.exit(1)
open(p, "w").write(s.replace(old, new))
PY
shift 3
for p in "$@"; do
  VERIF_REPO=$WT PYTHONPATH=$WT /venv/bin/python /verif/harness/check.py $p --tier ${TIER:-quick} 2>/dev/null | grep -v "^  - \s*$" | head -${LINES_:-3} | cut -c1-500
done
git -C /repo worktree remove --force $WT
