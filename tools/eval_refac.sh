#!/bin/bash
# dev helper: run checks against behaviour-preserving refactorings (must NOT raise alarms)
# usage: tools/eval_refac.sh <patch.diff> Cxx [Cyy ...]
set -u
PATCH=$(readlink -f "$1"); shift
WT=/tmp/wt_rf_$$
git -C /repo worktree add -f $WT HEAD -q || exit 2
trap 'git -C /repo worktree remove --force $WT >/dev/null 2>&1; rm -rf /tmp/rf_out_$$' EXIT
cd $WT
git apply --whitespace=nowarn "$PATCH" 2>/dev/null || patch -p1 --binary -s < "$PATCH" || { echo "PATCH DOES NOT APPLY"; exit 2; }
mkdir -p /tmp/rf_out_$$
for p in "$@"; do
  VERIF_EVIDENCE_DIR=/tmp/rf_out_$$ VERIF_REPLAY_DIR=/tmp/rf_out_$$ VERIF_REPO=$WT PYTHONPATH=$WT timeout 3000 /venv/bin/python /verif/harness/check.py $p --tier quick 2>/dev/null | grep -v "^  - \s*$" | head -2 | cut -c1-420
done
