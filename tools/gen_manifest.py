#!/venv/bin/python
"""Regenerates /verif/MANIFEST.json from the table below (so that the 20 entries stay consistent).
usage: tools/gen_manifest.py            (validates against /root/.vp/MANIFEST.schema.json when jsonschema is importable)"""
import json
import os
import sys

VERIF = os.path.dirname(os.path.dirname(os.path.abspath(__file__)))

TOK_TIE = ("the model is tied to /repo's core.py on every run by a Python-ast -> Gallina translation of StreamTokenizer proved equal "
           "to the hand model for all inputs (TokTie.v; the property theorems are re-stated over the generated definitions in "
           "TokGenProps.v) and cross-checked by exhaustive small-scope + random correspondence runs of the real class against the extracted model")
TOK_NOTE = ("trusted: Coq 8.16.1 kernel; translator harness/py2coq/tok.py; extraction (ExtrOcamlBasic only) + OCaml driver cross-checked by "
            "vm_compute; no axioms (Print Assumptions: closed under the global context); validator and data source abstracted as a verdict "
            "sequence (validator called once per frame, in order)")
REALS = ("standard-library axioms of the Reals/Flocq theorems as printed by Print Assumptions (ClassicalDedekindReals.sig_forall_dec, "
         "sig_not_dec, Classical_Prop.classic, FunctionalExtensionality.functional_extensionality_dep)")
CORR = "extraction (ExtrOcamlBasic only, no Extract Constant) + OCaml driver cross-checked by vm_compute; correspondence harness; CPython 3.12"

# id: (engine-group, category, what is proved, tie, note, technique)
T = {
 "C01": ("tok", "proof", "tokens are exact ordered disjoint slices: invariant proof over all streams/configs/previous states", TOK_TIE, TOK_NOTE,
         "Rocq/Coq proof (invariant by induction over the frame list) + translation tie + correspondence"),
 "C02": ("tok", "proof", "length bounds (max, min-as-continuation, strict) by invariant; constructor accepts <-> predicate", TOK_TIE, TOK_NOTE,
         "Rocq/Coq proof (invariant by induction) + translation tie + correspondence"),
 "C03": ("tok", "proof", "silence-run bound across cuts, token has / starts with / (when dropping) ends with a valid frame: invariant proof", TOK_TIE, TOK_NOTE,
         "Rocq/Coq proof (invariant by induction) + translation tie + correspondence"),
 "C04": ("tok", "proof", "tokenize = greedy segmentation spec (functional equivalence by simulation) for init_min<=1, plus coverage corollaries", TOK_TIE, TOK_NOTE,
         "Rocq/Coq proof (simulation / refinement to a declarative spec) + translation tie + correspondence"),
 "C08": ("tok", "proof", "latency bound, causality (k-th hand-over depends on the first k frames), prefix law, end-of-stream requested once: inductive proofs on the step function; "
         "partial: CPython generator suspension itself is language semantics, exercised with counting sources, not modelled", TOK_TIE, TOK_NOTE,
         "Rocq/Coq proof (induction on the step function) + translation tie + correspondence with counting sources"),
 "C20": ("tok", "proof", "reinit makes the stale fields dead: tokenize_from is independent of the previous state (all old states); buffer source close/open resets the cursor", TOK_TIE, TOK_NOTE,
         "Rocq/Coq proof (relational invariant) + translation tie + correspondence on pairs of uses"),
 "C05": ("split", "proof", "region bytes = the input slice at whole windows, ordered, whole samples; split = tokenizer o energy verdicts o blocks (composition theorem)",
         "model Split/Split.v composed from the translated-and-tied tokenizer model, the exact energy decision, Duration.v and Reader.v; the region time arithmetic (start, duration, end and the arguments split() passes to _make_audio_region) is translated on every run and proved equal to Split.region_start / region_duration / region_end (TieTimes.v); split() and AudioRegion.split() are tied by "
         "correspondence on synthesized audio (bytes and bit-exact float start/end/duration)", "trusted: Coq kernel; " + REALS + "; " + CORR,
         "Rocq/Coq proof (composition of slicing lemmas) + translation tie of the region times + correspondence"),
 "C06": ("split", "proof", "ms-grid exactness of the window counts by reflection on a finite grid (Flocq binary64, vm_compute lifted by forallb_forall); tolerance band lemma; accept <-> predicate",
         "Duration.v mirrors _duration_to_nb_windows and the parameter block of split(); tied on every run by translation (groups dur, split: _duration_to_nb_windows, _EPSILON and the program slice of "
         "split() that decides the window counts, helpers flattened, proved equal to Duration.nbw / split_params for all float inputs: TieDur.v, TieSplit.v) and by bit-exact correspondence on the ms grid and on random doubles "
         "(directly and through which isolated bursts split() reports)", "trusted: Coq kernel (vm_compute for the finite grid); Flocq binary64; " + REALS + "; " + CORR,
         "Rocq/Coq proof (reflection on a finite grid + Flocq error lemma) + translation tie + bit-exact correspondence"),
 "C07": ("energy", "proof", "integer decision procedure <-> 10*log10(mean square) >= threshold over the Reals; monotone in the threshold; PCM decode/deinterleave lemmas; "
         "partial: libm log10 in binary64 is not modelled - cases within 2^-35 of the boundary and not on it are counted as float_zone and not compared",
         "Audio/Energy.v, Pcm.v written by hand from signal.py / AudioEnergyValidator; the dispatch of make_channel_selector is executed symbolically from util.py on every run and proved equal to Audio/Selector.v (TieSelector.v); "
         "the numeric part is tied by boundary-directed correspondence (exact ties, one LSB above/below, channel selectors) and by the decision observed through split()",
         "trusted: Coq kernel; " + REALS + "; " + CORR, "Rocq/Coq proof (Reals bridge lemma) + translation tie of the selector dispatch + boundary-directed correspondence"),
 "C09": ("split", "proof", "alias resolution (long name wins), max_read = pre-slicing, wav header codec round trip; partial: file system / wave module / stdin replacement are exercised, not modelled; "
         "pydub formats and microphone are out of reach in this sandbox",
         "the alias lookups of split(), split_and_plot() and _get_audio_parameters are evaluated symbolically on every run (each key absent or present with an opaque value) and proved to resolve as Split.resolve (TieAlias.v); "
         "each generated (audio, parameters) is run through nine containers (stdin also as a bursty pipe) and long/short/both spellings in both keyword orders, with explicit None long names, and compared with the single model output (Split.v)",
         "trusted: Coq kernel; " + REALS + "; " + CORR, "Rocq/Coq proof (model is a function of decoded audio + resolved parameters) + translation tie of the alias lookups + container/spelling correspondence"),
 "C10": ("reader", "proof", "fixed framing = chunks; overlap k-th block closed form, count and last-block lemmas; limiter = firstn; rejects",
         "IO/Reader.v written by hand from util.py's wrapper stack; the constructor arithmetic (block / hop / budget sizes and the rejects) is sliced and translated from util.py on every run and proved equal to Reader.reader_params for all float inputs (TieReader.v); "
         "read / rewind behaviour tied by exhaustive small-grid + random correspondence over buffer/raw/wav sources",
         "trusted: Coq kernel; no axioms for the framing theorems; Flocq binary64 for the duration->samples conversions; " + CORR,
         "Rocq/Coq proof (closed form by induction on the step function) + translation tie of the constructor arithmetic + exhaustive small-scope correspondence"),
 "C11": ("source", "proof", "cursor machine refines 'successive slices of one byte string': invariant over all op sequences, read/position/seek/rewind/close laws, error cases leave the state unchanged",
         "IO/Source.v written by hand from io.py's BufferAudioSource and file/stdin sources; tied on every run by translation (groups buf, fsrc: BufferAudioSource.read / position / position_ms and FileAudioSource.read with the raw, wave and stdin "
         "_read_from_stream, proved equal to Source.bstep / fstep for all states and sizes: TieBuf.v, TieFsrc.v) and by random + exhaustive short op sequences on buffer, raw-file, wav-file and stdin sources (incl. megabyte sources and requests up to 2^64)",
         "trusted: Coq kernel; " + REALS + " (only for the seconds setters); " + CORR, "Rocq/Coq proof (invariant over operation histories) + translation tie + op-sequence correspondence"),
 "C12": ("workers", "proof", "interleaving model of workers.py at queue-operation granularity: FIFO exactly-once invariant for every reachable state and schedule, final-state theorem (= numbered tokenization = split()), "
         "deadlock freedom and a strictly decreasing measure; partial: CPython queue.Queue internals, the GIL, real timeouts and OS scheduling are not modelled (Queue assumed a linearizable FIFO, join exact)",
         "the loop turn of Worker.run (every worker class), _stop_requested, TokenizerWorker.read and the queue/join/close order of TokenizerWorker.run, stop_all, Worker.stop, StreamSaverWorker.read are translated from workers.py on every run and proved equal to Conc/Loops.v "
         "(TieLoops.v; Loops.step_obs_is_run_turn links the loop turn to the model's observer step); the REAL worker threads are run in lock-step under controlled schedules (random + stop injection); each recorded trace is replayed by the Coq trace monitor (Monitor.v, proved to accept only exec-reachable "
         "states) and the real observables (observer logs, printed lines, files, thread liveness) are compared with the model state", "trusted: Coq kernel; no axioms; translator harness/py2coq/loops.py; lock-step scheduler (rebinds auditok.workers.Queue, Worker.start/join); " + CORR,
         "Rocq/Coq proof (invariant over all schedules + variant) + translation tie of the worker loops + trace-monitor correspondence under controlled schedules"),
 "C13": ("workers", "proof", "saver invariant written ++ cache ++ in-flight = blocks read for every schedule and every cache size; final file = blocks read; joiner bytes = join with round(silence*rate) zero samples; "
         "partial: file system and wave module exercised, not modelled; ffmpeg/sox export out of scope",
         "the writer and joiner methods (_process_message, _write_cached_data, one turn of _post_process's drain loop, _write_audio_event) and the worker loop are translated from workers.py on every run and proved equal to Conc/Savers.v / Loops.v (TieSavers.v, TieLoops.v; "
         "Savers.step_sav_data_is_w_process links them to the interleaving model); controlled schedules with lagging writer and cache sizes {0, 1 byte, <block, =block, k*block, >stream, 4096 blocks}; files re-read and compared with the model (header included)",
         "trusted: Coq kernel; no axioms for the interleaving theorems; lock-step scheduler; " + CORR, "Rocq/Coq proof (invariant over all schedules, cache size universally quantified) + translation tie of the writer methods + trace-monitor correspondence + file comparison"),
 "C14": ("workers", "proof", "stop at any point of any schedule: at exit detections = tokenization of the k blocks read, every observer has exactly them, saver file = those k blocks; a stop from any reachable state terminates; "
         "partial: asynchronous signal delivery into a blocked C call is not modelled (a stop takes effect at the next poll)",
         "worker loop / stop polling / stop_all order translated from workers.py on every run and proved equal to Conc/Loops.v (TieLoops.v); the stop is injected at every scheduling point of each scenario under seeded continuations, trace replayed by the Coq monitor, final observables compared; "
         "Ctrl-C (SIGINT) delivered to the real command line in a child process at random moments",
         "trusted: Coq kernel; no axioms; lock-step scheduler; " + CORR, "Rocq/Coq proof (invariant + termination from every reachable state) + translation tie of the worker loops + stop injection at every scheduling point"),
 "C15": ("cli", "proof", "duration formatter: field decomposition/recomposition for all M>=0, %S rounding bound, %I = truncation, template parser accepts exactly well-formed templates; option/default/keyword tables extracted from cmdline.py and "
         "cmdline_util.py on every run and compared with the documented tables; partial: argparse itself is trusted, {timestamp} not compared, -E/-p/-C/-I/-F out of reach",
         "option / keyword tables extracted from cmdline.py on every run = Cli/Options.v (CliTie.v); the -j / -O guard and the record flag of make_kwargs evaluated symbolically on every run = Cli/Guards.v (TieGuards.v); the field arithmetic of the %h%m%s%i formatter translated = Cli/Format.v (TieFmt.v); "
         "end-to-end: auditok.cmdline.main(argv) run in-process on files and stdin over random option vectors, stdout/exit status/files compared with the model rendering of split_model under the resolved parameters",
         "trusted: Coq kernel; " + REALS + " (only %S rounding); AST table extraction harness/py2coq/cli.py; " + CORR, "Rocq/Coq proof (formatter arithmetic) + table extraction + end-to-end correspondence"),
 "C16": ("region", "proof", "getitem = Python slice of the sample list for all bounds (option Z, negative, huge), whole samples, views through int()/round() with error bounds",
         "Audio/Region.v written by hand from AudioRegion; tied on every run by translation (group region: __getitem__ with _check_convert_index, seconds and milliseconds views, proved equal to Region.getitem / sec_bounds / ms_to_sec for all inputs: TieRegion.v) "
         "and by exhaustive small-scope correspondence (all bounds around the length, huge bounds, views on a float grid, megabyte regions)",
         "trusted: Coq kernel; " + REALS + " (views only); " + CORR, "Rocq/Coq proof (algebraic law vs py_slice) + translation tie + exhaustive small-scope correspondence"),
 "C17": ("region", "proof", "concat/repeat/join/silence byte laws; division: min(n,len) contiguous pieces of near-equal size covering the data; parameter mismatch and ill-formed data rejected; eq <-> all four fields",
         "Audio/Region.v; tied on every run by translation (groups algebra, silence, div: __add__, __mul__, __eq__, __len__, the parameter check, make_silence and __truediv__ (its loop reassembled from the translated test and turn as a fuelled fixpoint and proved equal by induction) = Region.concat / repeat / region_eqb / len / make_silence / div for all regions: TieAlgebra.v, TieSilence.v, TieDiv.v) "
         "and by random operation sequences (expression trees over a pool with mixed parameters), exhaustive division grids and multi-megabyte joins", "trusted: Coq kernel; " + REALS + " (make_silence only); " + CORR,
         "Rocq/Coq proof (algebraic laws, fuelled loop with fuel never exhausted) + translation tie + op-sequence correspondence"),
 "C18": ("wavio", "proof", "wav header codec round trip for widths 1/2/4; load(skip,max_read) = the samples [min(k1,N), +min(k2,rest)) with k = round(t*rate), including empty results (Load.v, for all audio and requests); numpy layout; partial: wave module and file system exercised, not verified",
         "IO/Wav.v, Source.v, Load.v, Pcm.v; core._read_offline (load's eager path) is translated from core.py on every run and proved equal to Load.read_offline for all audio and float durations (TieLoad.v) and run against it; "
         "the bytes auditok writes are compared with wav_encode, save/load round trips eager and lazy, skip/max_read grids", "trusted: Coq kernel; " + REALS + " (skip/max_read conversions); " + CORR,
         "Rocq/Coq proof (codec round trip, slicing law of load) + translation tie of _read_offline + file-level correspondence"),
 "C19": ("reader", "proof", "recorded data = the consumed prefix (each sample once, never beyond the limit); replay after rewind = the C10 block sequence of the data; guards",
         "IO/Reader.v recorder layer; constructor arithmetic tied by translation (TieReader.v), recorder behaviour by exhaustive small configurations x histories read^k rewind ... on Recorder and AudioReader(record=True)", "trusted: Coq kernel; no axioms; " + CORR,
         "Rocq/Coq proof (induction over histories) + translation tie of the constructor arithmetic + exhaustive history correspondence"),
}

NOT_READY = {}   # id -> reason  (properties whose harness is not wired yet)

ENGINES = {
 "tok": "Coq development coq/Tok + per-run translation harness/py2coq/tok.py + correspondence harness/props/tok.py",
 "split": "coq/Split + harness/props/split.py, duration.py",
 "energy": "coq/Audio/Energy*.v Pcm.v + harness/props/energy.py",
 "reader": "coq/IO/Reader*.v + harness/props/reader.py",
 "source": "coq/IO/Source*.v + harness/props/source.py",
 "workers": "coq/Conc (interleaving model, safety, progress, trace monitor) + harness/sched (lock-step scheduler) + harness/props/workers.py",
 "cli": "coq/Cli + harness/py2coq/cli.py (table extraction) + harness/props/cli.py",
 "region": "coq/Audio/Region*.v + harness/props/region.py",
 "wavio": "coq/IO/Wav*.v + harness/props/wavio.py",
}


def main():
    checks = []
    for pid in sorted(T):
        if pid in NOT_READY:
            continue
        grp, cat, what, tie, note, tech = T[pid]
        cmd = "PYTHONPATH=/repo PYTHONHASHSEED=0 /venv/bin/python harness/check.py %s --tier %s"
        checks.append({
            "property_id": pid,
            "quick_cmd": cmd % (pid, "quick"),
            "thorough_cmd": cmd % (pid, "thorough"),
            "evidence_file": "evidence/%s.json" % pid,
            "engine": "coq-" + grp,
            "level_claimed": {
                "category": cat,
                "text": "Coq theorems about the Gallina model (%s), unbounded in sizes/steps; %s" % (what, tie),
                "design_ref": "DESIGN.md section 4 (%s)" % pid,
            },
            "level_note": note + "; tie of record = correspondence (model executed against the implementation); translation-tie lemmas are extra obligations re-proved on every run: one that "
                          "does not re-check while the correspondence agrees everywhere (also under three further seeds) yields a TIE-UNDISCHARGED line, not a VIOLATION, and that run's evidence claims the correspondence tie only (DESIGN.md section 10)",
            "technique": tech,
        })
    engines = []
    for g, txt in ENGINES.items():
        served = [p for p in sorted(T) if T[p][0] == g and p not in NOT_READY]
        if served:
            engines.append({"name": "coq-" + g, "path": "coq/", "serves_properties": served, "kind_free_text": txt})
    m = {
        "version": 1,
        "setup_cmd": "bash setup.sh",
        "hooks": {
            "guard": "AUDITOK_VERIF",
            "enable": "no source hooks: instrumentation is applied from the harness process by rebinding module globals of the imported package (auditok.workers.Queue, Worker.start/join, auditok.cmdline.time.sleep, sys.stdin)",
            "baseline_off_cmd": "cd /repo && /venv/bin/python -m pytest -ra -q -p no:cacheprovider --timeout=900 --continue-on-collection-errors",
            "source_commits": [],
            "add_only": True,
        },
        "engines": engines,
        "checks": checks,
        "not_applicable": [{"property_id": p, "reason": r} for p, r in sorted(NOT_READY.items())],
        "notes": "All checks: harness/check.py <id>; every run re-does the proof step (make + Props/<id>.v + forbidden-construct scan), the tie to /repo's working tree and writes evidence/<id>.json. "
                 "Genuine defects found and repaired in /repo are listed in known_findings.json (status fixed).",
    }
    path = os.path.join(VERIF, "MANIFEST.json")
    json.dump(m, open(path, "w"), indent=1)
    try:
        import jsonschema
        jsonschema.validate(m, json.load(open("/root/.vp/MANIFEST.schema.json")))
        print("MANIFEST.json valid, %d checks" % len(checks))
    except ImportError:
        print("MANIFEST.json written (%d checks); jsonschema not importable here" % len(checks))


if __name__ == "__main__":
    if len(sys.argv) > 1:
        for a in sys.argv[1:]:
            if "=" in a:
                k, v = a.split("=", 1)
                NOT_READY[k] = v
    main()
