#!/bin/bash
# dev helper: apply a patch in a scratch worktree and run only the translation ties (fast)
# usage: tools/tie_on_patch.sh <patch.diff> group [group...]
PATCH=$(readlink -f "$1"); shift
WT=/tmp/wt_tie_$$
git -C /repo worktree add -f $WT HEAD -q || exit 2
trap 'git -C /repo worktree remove --force $WT >/dev/null 2>&1' EXIT
(cd $WT && (git apply --whitespace=nowarn "$PATCH" 2>/dev/null || patch -p1 --binary -s < "$PATCH")) || { echo "PATCH DOES NOT APPLY"; exit 2; }
VERIF_REPO=$WT PYTHONPATH=/verif:$WT timeout 900 /venv/bin/python - "$@" <<'PY'
import sys, time
from harness.py2coq import misctie
for g in sys.argv[1:]:
    t = time.time(); r = misctie.tie_group(g)
    print(g, "OK" if r["ok"] else "BROKEN", round(time.time() - t, 1), "" if r["ok"] else r["detail"][-700:].replace("\n", " "))
PY
