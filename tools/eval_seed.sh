#!/bin/bash
# dev helper: validate a seeded change and run checks against it, in a scratch worktree (never /repo itself)
# usage: tools/eval_seed.sh <patch.diff> <demo.py> Cxx [Cyy ...]     env: TIER, SKIP_TESTS=1
set -u
PATCH=$(readlink -f "$1"); DEMO=$(readlink -f "$2"); shift 2
WT=/tmp/wt_ev_$$
git -C /repo worktree add -f $WT HEAD -q || exit 2
trap 'git -C /repo worktree remove --force $WT >/dev/null 2>&1' EXIT
cd $WT
PYTHONPATH=$WT timeout 300 /venv/bin/python $DEMO >/tmp/ev_demo_$$.txt 2>&1; r0=$?
echo "demo on unchanged tree: exit $r0 ($(tail -1 /tmp/ev_demo_$$.txt | cut -c1-120))"
git apply "$PATCH" || { echo "PATCH DOES NOT APPLY"; exit 2; }
if [ -z "${SKIP_TESTS:-}" ]; then
  PYTHONPATH=$WT timeout 900 /venv/bin/python -m pytest -q -p no:cacheprovider --timeout=900 --continue-on-collection-errors 2>&1 | tail -1
fi
PYTHONPATH=$WT timeout 300 /venv/bin/python $DEMO >/tmp/ev_demo_$$.txt 2>&1; r1=$?
echo "demo on changed tree: exit $r1 ($(grep -m1 -i fail /tmp/ev_demo_$$.txt | cut -c1-200))"
rm -f /tmp/ev_demo_$$.txt
mkdir -p /tmp/ev_out_$$
for p in "$@"; do
  VERIF_EVIDENCE_DIR=/tmp/ev_out_$$ VERIF_REPLAY_DIR=/tmp/ev_out_$$ VERIF_REPO=$WT PYTHONPATH=$WT timeout 3000 /venv/bin/python /verif/harness/check.py $p --tier ${TIER:-quick} 2>/dev/null | grep -v "^  - \s*$" | head -${LINES_:-2} | cut -c1-400
done
rm -rf /tmp/ev_out_$$
