#!/bin/bash
# re-run every kept seed (seeded/Cxx-k) against the current checks; prints one line per seed
OUT=${1:-/tmp/reseed}
mkdir -p $OUT
ls -d /verif/seeded/C??-* | xargs -P 4 -I{} bash -c 'd={}; id=$(basename $d); p=${id%%-*}; SKIP_TESTS=1 LINES_=2 /verif/tools/eval_seed.sh $d/patch.diff $d/demo.py $p > '$OUT'/$id.txt 2>&1'
for f in $OUT/C*.txt; do echo "$(basename $f .txt): $(grep -m1 'VIOLATION\|^OK' $f | sed 's/replay=[^ ]*//' | cut -c1-90)"; done
