#!/bin/bash
# dev helper: apply a patch in a scratch worktree and run the tolerant tokenizer translation + tie (TokTie2)
PATCH=$(readlink -f "$1")
WT=/tmp/wt_t2_$$
git -C /repo worktree add -f $WT HEAD -q || exit 2
trap 'git -C /repo worktree remove --force $WT >/dev/null 2>&1' EXIT
(cd $WT && (git apply --whitespace=nowarn "$PATCH" 2>/dev/null || patch -p1 --binary -s < "$PATCH")) || { echo "PATCH DOES NOT APPLY"; exit 2; }
VERIF_REPO=$WT PYTHONPATH=/verif:$WT timeout 900 /venv/bin/python - <<'PY'
import time
from harness.props import tok
t = time.time(); r = tok.tie_T2()
print("tok2", "OK" if r["ok"] else "BROKEN", round(time.time() - t, 1), "" if r["ok"] else r["detail"][-900:].replace("\n", " "))
PY
