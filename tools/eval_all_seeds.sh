#!/bin/bash
# evaluate every finished seed under $1 (default /tmp/seed) that has no result yet; 4 at a time
ROOT=${1:-/tmp/seed}
mkdir -p $ROOT/results
jobs_list=()
for d in $ROOT/C??_out; do
  p=$(basename $d | cut -c1-3)
  for k in 1 2; do
    if [ -f $d/patch$k.diff ] && [ -f $d/demo$k.py ] && [ -f $d/notes$k.md ] && [ ! -f $ROOT/results/${p}_$k.txt ]; then
      jobs_list+=("$p $k")
    fi
  done
done
printf '%s\n' "${jobs_list[@]}" | grep . | xargs -P 4 -L 1 bash -c 'LINES_=3 /verif/tools/eval_seed.sh '$ROOT'/$0_out/patch$1.diff '$ROOT'/$0_out/demo$1.py $0 > '$ROOT'/results/$0_$1.txt 2>&1'
for f in $ROOT/results/*.txt; do echo "== $(basename $f)"; cat $f | cut -c1-330; done
