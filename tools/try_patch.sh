#!/bin/bash
# dev helper: run checks against a scratch worktree of /repo with a patch applied
# usage: tools/try_patch.sh <patch.diff|-e 'sed-expr file'> Cxx [Cyy ...]
set -u
WT=/tmp/wt_try_$$
git -C /repo worktree add -f $WT HEAD -q || exit 2
if [ "$1" = "-e" ]; then
  shift; expr="$1"; file="$2"; shift 2
  sed -i "$expr" $WT/$file
  (cd $WT && git diff --stat | tail -1)
else
  (cd $WT && git apply "$1") || { git -C /repo worktree remove --force $WT; exit 2; }
  shift
fi
for p in "$@"; do
  VERIF_REPO=$WT PYTHONPATH=$WT /venv/bin/python /verif/harness/check.py $p --tier ${TIER:-quick} 2>&1 | grep -v "^  - \s*$" | head -${LINES_:-3} | cut -c1-400
done
git -C /repo worktree remove --force $WT
