#!/venv/bin/python
"""dev helper: copy evaluated seeds from a scratch root (layout <root>/Cxx_out/{patchK.diff,demoK.py,notesK.md}, <root>/results/Cxx_K.txt
written by tools/eval_all_seeds.sh) into /verif/seeded/Cxx-N with a meta.json.   usage: tools/import_seeds.py <root> <round> "<theme>" """
import glob, json, os, re, shutil, sys

root, rnd, theme = sys.argv[1], int(sys.argv[2]), sys.argv[3]
V = os.path.dirname(os.path.dirname(os.path.abspath(__file__)))
for res in sorted(glob.glob(os.path.join(root, "results", "C??_?.txt"))):
    pid, k = os.path.basename(res)[:3], os.path.basename(res)[4]
    src = os.path.join(root, pid + "_out")
    lines = [l.rstrip("\n") for l in open(res) if "conda" not in l]
    demo0 = next((l for l in lines if l.startswith("demo on unchanged")), "")
    tests = next((l for l in lines if " passed" in l), "")
    demo1 = next((l for l in lines if l.startswith("demo on changed")), "")
    verdict = next((l for l in lines if l.startswith(("VIOLATION", "OK property"))), "")
    detail = next((l.strip() for l in lines if l.strip().startswith("- ")), "")
    ok = "exit 0" in demo0 and "exit 1" in demo1 and "36 failed, 579 passed" in tests
    if not ok:
        print("NOT CONFIRMED, skipped:", pid, k, demo0, tests, demo1); continue
    n = 1
    while os.path.exists(os.path.join(V, "seeded", "%s-%d" % (pid, n))):
        n += 1
    dst = os.path.join(V, "seeded", "%s-%d" % (pid, n))
    os.makedirs(dst)
    shutil.copy(os.path.join(src, "patch%s.diff" % k), os.path.join(dst, "patch.diff"))
    shutil.copy(os.path.join(src, "demo%s.py" % k), os.path.join(dst, "demo.py"))
    notes = open(os.path.join(src, "notes%s.md" % k)).read() if os.path.exists(os.path.join(src, "notes%s.md" % k)) else ""
    open(os.path.join(dst, "notes.md"), "w").write(notes)
    meta = {"seed_id": "%s-%d" % (pid, n), "property": pid, "round": rnd, "theme": theme,
            "origin": "written by an independent sub-agent that saw only the property text and its own scratch worktree of /repo (nothing from /verif)",
            "needs_to_manifest": notes[:1500],
            "confirmed": {"how": "tools/eval_seed.sh patch.diff demo.py %s" % pid, "demo_unchanged": demo0, "test_suite_with_change": tests, "demo_changed": demo1[:300]},
            "check_result_quick": {"line": re.sub(r"replay=\S+", "replay=<scratch>", verdict), "detail": detail[:400]},
            "detected": verdict.startswith("VIOLATION"), "with_failing_input": verdict.startswith("VIOLATION") and "no-failing-input-found" not in verdict}
    json.dump(meta, open(os.path.join(dst, "meta.json"), "w"), indent=1)
    print(meta["seed_id"], meta["detected"], meta["with_failing_input"])
